package sugardb

import "testing"

// Known finding C19: a collection that grows in place (SADD on an existing set; the same holds for HSET, ZADD, RPUSH ...) is
// not re-accounted: the reported memory stays at the creation-time size, and DEL then subtracts the grown size, driving the
// figure below that of an empty store. The test FAILS while the defect is present.
func TestKnownC19InPlaceGrowthNotAccounted(t *testing.T) {
	server, err := NewSugarDB()
	if err != nil {
		t.Fatal(err)
	}
	empty := server.GetServerInfo().MemoryUsed
	if _, err := server.SAdd("s", "a"); err != nil {
		t.Fatal(err)
	}
	small := server.GetServerInfo().MemoryUsed
	if _, err := server.SAdd("s", "a-much-longer-member-0123456789", "another-long-member-0123456789"); err != nil {
		t.Fatal(err)
	}
	grown := server.GetServerInfo().MemoryUsed
	if grown <= small {
		t.Errorf("the set grew from 1 to 3 members but the reported memory did not: %d -> %d", small, grown)
	}
	if _, err := server.Del("s"); err != nil {
		t.Fatal(err)
	}
	if after := server.GetServerInfo().MemoryUsed; after != empty {
		t.Errorf("after deleting the only key the reported memory is %d, an empty store reports %d", after, empty)
	}
}
