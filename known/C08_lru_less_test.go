package eviction

import "testing"

// Demonstration for the known finding "CacheLRU.Less orders most-recently-used first".
// Fails while the defect is present: the entry accessed earlier must sort first in an LRU heap.
func TestKnownC08LRULessOrder(t *testing.T) {
	c := NewCacheLRU()
	c.entries = []*EntryLRU{{key: "older", unixTime: 1, index: 0}, {key: "newer", unixTime: 2, index: 1}}
	c.keys["older"], c.keys["newer"] = true, true
	if !c.Less(0, 1) {
		t.Fatalf("Less(older, newer) = false: the least recently used entry does not sort first, so heap.Pop evicts the most recently used key")
	}
}
