package main

// Replay of a solver counterexample against the real code.
//
// Supported shape (anything else is reported as not replayable and keeps the no-failing-input-found suffix):
//   - the refuted obligation is an instance of an `ensures` clause of a top-level function (no receiver);
//   - every parameter of the function has an integer or boolean type, so that the model's parameter values are the
//     whole input;
//   - the clause uses only operators that have a direct Go reading (no quantifiers, no spec functions, no old()).
//
// The model's parameter values are written into a Go test in the function's own package, injected with
// `go test -overlay` (nothing is written into the repository), the real function is called and the clause is evaluated
// on the real result. The input is a failing input only if that test fails.

import (
	"context"
	"encoding/json"
	"fmt"
	"go/types"
	"os"
	"os/exec"
	"path/filepath"
	"regexp"
	"strings"
	"time"

	"golang.org/x/tools/go/ssa"
)

type replayResult struct {
	Attempted bool              `json:"attempted"`
	Why       string            `json:"why_not,omitempty"`
	Inputs    map[string]string `json:"inputs,omitempty"`
	Test      string            `json:"go_test,omitempty"`
	Output    string            `json:"go_test_output,omitempty"`
	Confirmed bool              `json:"failing_input_confirmed"`
	PkgDir    string            `json:"package_dir,omitempty"`
}

var reDefine = regexp.MustCompile(`\(define-fun (p_[A-Za-z0-9_]+)!\d+ \(\) (Int|Bool) (\(- \d+\)|\d+|true|false)\)`)

// goExpr prints a spec expression as Go, or fails when it has no direct Go reading.
func goExpr(e *SExpr) (string, error) {
	switch e.Op {
	case "int", "bool":
		return e.Name, nil
	case "ident":
		if strings.HasPrefix(e.Name, "$") {
			return "", fmt.Errorf("ghost state %s", e.Name)
		}
		return e.Name, nil
	case "un":
		x, err := goExpr(e.Args[0])
		if err != nil {
			return "", err
		}
		return "(" + e.Name + x + ")", nil
	case "bin":
		a, err := goExpr(e.Args[0])
		if err != nil {
			return "", err
		}
		b, err := goExpr(e.Args[1])
		if err != nil {
			return "", err
		}
		switch e.Name {
		case "==>":
			return "(!(" + a + ") || (" + b + "))", nil
		case "<==>":
			return "((" + a + ") == (" + b + "))", nil
		case "&&", "||", "==", "!=", "<", "<=", ">", ">=", "+", "-", "*", "/", "%":
			return "(" + a + " " + e.Name + " " + b + ")", nil
		}
		return "", fmt.Errorf("operator %s", e.Name)
	case "ite":
		c, err := goExpr(e.Args[0])
		if err != nil {
			return "", err
		}
		a, err := goExpr(e.Args[1])
		if err != nil {
			return "", err
		}
		b, err := goExpr(e.Args[2])
		if err != nil {
			return "", err
		}
		return "gowpIte(" + c + ", " + a + ", " + b + ")", nil
	case "call":
		switch e.Name {
		case "int", "int64", "uint64", "int32", "uint8", "uint", "float64":
			if len(e.Args) == 1 {
				x, err := goExpr(e.Args[0])
				if err != nil {
					return "", err
				}
				return e.Name + "(" + x + ")", nil
			}
		}
		return "", fmt.Errorf("call of %s", e.Name)
	}
	return "", fmt.Errorf("expression form %s", e.Op)
}

// replayScalar tries to replay obligation o (result sat, model in `model`) on the real code in repo.
func (e *Engine) replayScalar(repo string, o *Obligation, model string) *replayResult {
	r := &replayResult{}
	fn := e.funcsByKey[o.Func]
	if fn == nil || o.Class != "post" {
		r.Why = "only postconditions of functions are replayed"
		return r
	}
	if fn.Signature.Recv() != nil || fn.Parent() != nil {
		r.Why = "the function has a receiver or is a closure: the model's heap is not concretised"
		return r
	}
	spec := e.specFor(fn)
	if spec == nil {
		r.Why = "no contract"
		return r
	}
	// the clause: .../post/<key>#n
	parts := strings.Split(o.ID, "/")
	key := parts[len(parts)-1]
	if i := strings.LastIndex(key, "#"); i >= 0 {
		key = key[:i]
	}
	var cl *Clause
	for _, c := range spec.Ensures {
		if clauseKey(c) == key {
			cl = c
		}
	}
	if cl == nil {
		r.Why = "clause not found"
		return r
	}
	cond, err := goExpr(cl.Expr)
	if err != nil {
		r.Why = "the clause has no direct Go reading: " + err.Error()
		return r
	}
	flat := strings.Join(strings.Fields(model), " ")
	vals := map[string]string{}
	for _, m := range reDefine.FindAllStringSubmatch(flat, -1) {
		v := m[3]
		if strings.HasPrefix(v, "(- ") {
			v = "-" + strings.TrimSuffix(strings.TrimPrefix(v, "(- "), ")")
		}
		vals[m[1]] = v
	}
	qual := func(p *types.Package) string {
		if p == fn.Pkg.Pkg {
			return ""
		}
		return p.Name()
	}
	var decls, args []string
	r.Inputs = map[string]string{}
	for _, p := range fn.Params {
		b, ok := p.Type().Underlying().(*types.Basic)
		if !ok || b.Info()&(types.IsInteger|types.IsBoolean) == 0 {
			r.Why = "parameter " + p.Name() + " is not an integer or boolean: the model's heap and strings are not concretised"
			return r
		}
		v, ok := vals["p_"+sanitize(p.Name())]
		if !ok {
			// unconstrained in the model: any value works
			v = "0"
			if b.Info()&types.IsBoolean != 0 {
				v = "false"
			}
		}
		decls = append(decls, fmt.Sprintf("\tvar %s %s = %s", p.Name(), types.TypeString(p.Type(), qual), v))
		args = append(args, p.Name())
		r.Inputs[p.Name()] = v
	}
	res := fn.Signature.Results()
	var lhs []string
	switch res.Len() {
	case 0:
		r.Why = "no result"
		return r
	case 1:
		lhs = []string{"result"}
	default:
		for i := 0; i < res.Len(); i++ {
			lhs = append(lhs, fmt.Sprintf("result%d", i))
		}
	}
	var use []string
	for _, l := range lhs {
		use = append(use, "_ = "+l)
	}
	test := fmt.Sprintf(`package %s

import "testing"

func gowpIte[T any](c bool, a, b T) T {
	if c {
		return a
	}
	return b
}

// Generated by gowp: the solver's counterexample for %s, run against the real function.
func TestGowpReplay(t *testing.T) {
%s
	%s := %s(%s)
	%s
	if !(%s) {
		t.Fatalf("clause violated on the real code: %s with inputs %v gives %%v", %s)
	}
}
`, fn.Pkg.Pkg.Name(), o.ID, strings.Join(decls, "\n"), strings.Join(lhs, ", "), fn.Name(), strings.Join(args, ", "), strings.Join(use, "; "), cond,
		strings.ReplaceAll(cl.Text, `"`, `'`), r.Inputs, lhs[0])
	r.Test = test
	r.Attempted = true
	// run it through an overlay
	pkgDir := ""
	for _, p := range e.pkgs {
		if p.Types == fn.Pkg.Pkg && len(p.GoFiles) > 0 {
			pkgDir = filepath.Dir(p.GoFiles[0])
		}
	}
	if pkgDir == "" {
		r.Why = "package directory not found"
		return r
	}
	r.PkgDir = pkgDir
	r.Output, r.Confirmed = runReplayTest(pkgDir, test)
	_ = ssa.Function{}
	return r
}

// runReplayTest injects the generated test into pkgDir through an overlay and runs it; confirmed = the test failed on
// the clause (not on a build error).
func runReplayTest(pkgDir, test string) (string, bool) {
	tmp, err := os.MkdirTemp("", "gowp-replay")
	if err != nil {
		return err.Error(), false
	}
	defer os.RemoveAll(tmp)
	src := filepath.Join(tmp, "zz_gowp_replay_test.go")
	os.WriteFile(src, []byte(test), 0o644)
	ov, _ := json.Marshal(map[string]map[string]string{"Replace": {filepath.Join(pkgDir, "zz_gowp_replay_test.go"): src}})
	ovf := filepath.Join(tmp, "ov.json")
	os.WriteFile(ovf, ov, 0o644)
	ctx, cancel := context.WithTimeout(context.Background(), 120*time.Second)
	defer cancel()
	cmd := exec.CommandContext(ctx, "go", "test", "-overlay", ovf, "-vet=off", "-timeout", "60s", "-count=1", "-run", "^TestGowpReplay$", ".")
	cmd.Dir = pkgDir
	cmd.Env = append(os.Environ(), "GOFLAGS=-mod=mod", "GOPROXY=off", "GOSUMDB=off", "GOTOOLCHAIN=local")
	out, rerr := cmd.CombinedOutput()
	return truncate(string(out), 4000), rerr != nil && strings.Contains(string(out), "clause violated on the real code")
}

// cmdReplay re-runs a replay file written by a check: the generated Go test against the real code when there is one,
// otherwise the recorded SMT query on the solvers. Exit 1 when the violation shows again, 0 when it does not.
func cmdReplay(args []string) {
	if len(args) < 1 {
		usage()
	}
	var r struct {
		Property   string        `json:"property"`
		Obligation string        `json:"obligation"`
		Desc       string        `json:"description"`
		QueryFile  string        `json:"query_file"`
		Replay     *replayResult `json:"replay"`
	}
	if err := loadJSON(args[0], &r); err != nil {
		fmt.Fprintln(os.Stderr, "replay:", err)
		os.Exit(2)
	}
	fmt.Printf("property %s, obligation %s\n  %s\n", r.Property, r.Obligation, r.Desc)
	if r.Replay != nil && r.Replay.Attempted && r.Replay.Test != "" && r.Replay.PkgDir != "" {
		out, confirmed := runReplayTest(r.Replay.PkgDir, r.Replay.Test)
		fmt.Printf("inputs: %v\n%s\n", r.Replay.Inputs, out)
		if confirmed {
			fmt.Println("the failing input still violates the clause on the real code")
			os.Exit(1)
		}
		fmt.Println("the recorded input does not violate the clause on the current code")
		os.Exit(0)
	}
	q, err := os.ReadFile(r.QueryFile)
	if err != nil {
		fmt.Fprintln(os.Stderr, "replay: no generated test and no query file:", err)
		os.Exit(2)
	}
	o := &Obligation{ID: r.Obligation, Query: string(q)}
	solveAll([]*Obligation{o}, SolveCfg{TimeoutS: 60, Workers: 1, TmpDir: filepath.Join(os.TempDir(), "gowp-q")})
	fmt.Printf("recorded verification condition: %s (%s, %.1fs)\n", o.Result, o.Solver, o.Time)
	if o.Result == "unsat" {
		fmt.Println("the recorded condition is discharged (note: it was generated from the tree the check ran on, not from the current tree)")
		os.Exit(0)
	}
	fmt.Println("the recorded condition is not discharged: no-failing-input-found")
	os.Exit(1)
}
