package main

import (
	"flag"
	"fmt"
	"os"
	"path/filepath"
	"sort"
	"strings"
	"sync"

	"golang.org/x/tools/go/ssa"
)

func usage() {
	fmt.Fprintln(os.Stderr, `usage:
  gowp verify [-repo /repo] [-classes a,b] [-dump dir] [-t secs] <func-substring>...   debug: verify matching functions
  gowp check  <property> <quick|thorough>                                        registered check (see check.go)
  gowp baseline                                                                  regenerate claims/claimed.json
  gowp gen [-repo /repo] [property...]                                           generate only: property, obligation id, SHA-256(query)`)
	os.Exit(2)
}

func main() {
	if len(os.Args) < 2 {
		usage()
	}
	switch os.Args[1] {
	case "verify":
		cmdVerify(os.Args[2:])
	case "check":
		cmdCheck(os.Args[2:])
	case "baseline":
		cmdBaseline(os.Args[2:])
	case "list":
		cmdList(os.Args[2:])
	case "replay":
		cmdReplay(os.Args[2:])
	case "loops":
		cmdLoops(os.Args[2:])
	case "gen":
		cmdGen(os.Args[2:])
	default:
		usage()
	}
}

func parseClasses(s string) map[string]bool {
	if s == "" {
		return nil
	}
	m := map[string]bool{}
	for _, c := range strings.Split(s, ",") {
		m[strings.TrimSpace(c)] = true
	}
	return m
}

func (e *Engine) matchFuncs(pats []string) []*ssa.Function {
	var out []*ssa.Function
	for k, fn := range e.funcsByShort {
		for _, p := range pats {
			if k == p || globMatch(p, k) {
				out = append(out, fn)
				break
			}
		}
	}
	sort.Slice(out, func(i, j int) bool { return e.funcKey(out[i]) < e.funcKey(out[j]) })
	return out
}

// globMatch: pattern with one '*' (anywhere) against a short function key.
func globMatch(p, k string) bool {
	i := strings.Index(p, "*")
	if i < 0 {
		return false
	}
	pre, suf := p[:i], p[i+1:]
	return len(k) >= len(pre)+len(suf) && strings.HasPrefix(k, pre) && strings.HasSuffix(k, suf)
}

func cmdVerify(args []string) {
	fs := flag.NewFlagSet("verify", flag.ExitOnError)
	repo := fs.String("repo", "/repo", "repository root")
	classes := fs.String("classes", "", "obligation classes (default all)")
	dump := fs.String("dump", "", "directory to dump queries into")
	timeout := fs.Int("t", 10, "solver timeout (s)")
	pkgs := fs.String("pkgs", "./...", "package patterns")
	verbose := fs.Bool("v", false, "print notes")
	model := fs.Bool("model", false, "print models of failed obligations")
	fs.Parse(args)
	eng, err := loadEngine(*repo, strings.Fields(*pkgs))
	if err != nil {
		fmt.Fprintln(os.Stderr, "load:", err)
		os.Exit(2)
	}
	fns := eng.matchFuncs(fs.Args())
	if len(fns) == 0 {
		fmt.Fprintln(os.Stderr, "no function matches")
		os.Exit(2)
	}
	cfg := SolveCfg{TimeoutS: *timeout, Workers: 16, TmpDir: filepath.Join(os.TempDir(), "gowp-q")}
	for _, fn := range fns {
		res := eng.verifyUnit(fn, parseClasses(*classes))
		fmt.Printf("== %s  (%d instrs)\n", res.Func, res.Insts)
		if res.Failed != "" {
			fmt.Println("   OUT OF REACH:", res.Failed)
			continue
		}
		solveAll(res.Obls, cfg)
		for _, o := range res.Obls {
			status := map[string]string{"unsat": "ok  ", "sat": "FAIL", "unknown": "??? "}[o.Result]
			if o.Canary {
				status = map[string]string{"sat": "ok  ", "unsat": "VACUOUS", "unknown": "??? "}[o.Result]
			}
			fmt.Printf("   %s %-60s %-10s %5.2fs %s  | %s\n", status, o.ID, o.Solver, o.Time, o.Pos, o.Desc)
			if *dump != "" {
				os.MkdirAll(*dump, 0o755)
				os.WriteFile(filepath.Join(*dump, sanitize(o.ID)+".smt2"), []byte(o.Query), 0o644)
			}
			if *model && o.Result == "sat" && !o.Canary {
				fmt.Println(indent(modelFor(o, cfg.TmpDir, *timeout)))
			}
			if o.Result == "unknown" && *verbose {
				fmt.Println(indent(o.Output))
			}
		}
		if *verbose {
			for _, n := range res.Notes {
				fmt.Println("   note:", n)
			}
		}
	}
}

func indent(s string) string {
	var b strings.Builder
	for _, l := range strings.Split(strings.TrimSpace(s), "\n") {
		b.WriteString("        " + l + "\n")
	}
	return b.String()
}

func cmdList(args []string) {
	eng, err := loadEngine("/repo", []string{"./..."})
	if err != nil {
		fmt.Fprintln(os.Stderr, "load:", err)
		os.Exit(2)
	}
	var ks []string
	for k := range eng.funcsByShort {
		ks = append(ks, k)
	}
	sort.Strings(ks)
	for _, k := range ks {
		fmt.Println(k)
	}
}

// cmdLoops prints, for each named function, the ordinal of every loop (as used by `loop n` in contracts) with the source
// position of the first positioned instruction of its header or body.
func cmdLoops(args []string) {
	eng, err := loadEngine("/repo", []string{"./..."})
	if err != nil {
		fmt.Fprintln(os.Stderr, "load:", err)
		os.Exit(2)
	}
	for _, fn := range eng.matchFuncs(args) {
		if fn.Blocks == nil {
			continue
		}
		loops := findLoops(fn)
		ords := loopOrdinals(fn, loops)
		fmt.Println(eng.funcKeyShort(fn))
		for h, li := range loops {
			pos := ""
			var idx []int
			for b := range li.blocks {
				idx = append(idx, b)
			}
			sort.Ints(idx)
			best := 1 << 30
			for _, b := range idx {
				for _, in := range fn.Blocks[b].Instrs {
					if in.Pos().IsValid() {
						p := eng.fset.Position(in.Pos())
						if p.Line < best {
							best = p.Line
							pos = fmt.Sprintf("%s:%d", filepath.Base(p.Filename), p.Line)
						}
					}
				}
			}
			fmt.Printf("  loop %d: header block %d, first line %s, %d blocks\n", ords[h], h, pos, len(li.blocks))
		}
	}
}

// cmdGen generates (does not solve) the obligations of the given properties (default all) and prints one line per
// obligation: property, obligation id, SHA-256 of the query text. Two runs on the same tree must print the same lines
// whatever the machine is doing meanwhile (tools/determinism.sh compares them): the set of obligations a check decides
// may not depend on timing.
func cmdGen(args []string) {
	fs := flag.NewFlagSet("gen", flag.ExitOnError)
	repo := fs.String("repo", "/repo", "repository root")
	fs.Parse(args)
	props := loadProps()
	eng, err := loadEngine(*repo, []string{"./..."})
	if err != nil {
		fmt.Fprintln(os.Stderr, "load:", err)
		os.Exit(2)
	}
	var ps []string
	for p := range props {
		if fs.NArg() == 0 {
			ps = append(ps, p)
		}
	}
	ps = append(ps, fs.Args()...)
	sort.Strings(ps)
	type job struct {
		fn      *ssa.Function
		classes map[string]bool
		key     string
		res     *UnitResult
	}
	jobs := map[string]*job{}
	var order []*job
	keyOf := func(pu *propUnit) string {
		var cs []string
		for c := range pu.classes {
			cs = append(cs, c)
		}
		sort.Strings(cs)
		k := eng.funcKey(pu.fn) + "|"
		if pu.classes == nil {
			k += "*"
		}
		return k + strings.Join(cs, ",")
	}
	for _, p := range ps {
		for _, pu := range eng.unitsFor(p, props[p]) {
			k := keyOf(pu)
			if jobs[k] == nil {
				jobs[k] = &job{fn: pu.fn, classes: pu.classes, key: k}
				order = append(order, jobs[k])
			}
		}
	}
	var wg sync.WaitGroup
	sem := make(chan struct{}, genWorkers())
	for _, j := range order {
		wg.Add(1)
		sem <- struct{}{}
		go func(j *job) {
			defer wg.Done()
			defer func() { <-sem }()
			j.res = eng.verifyUnit(j.fn, j.classes)
		}(j)
	}
	wg.Wait()
	for _, p := range ps {
		for _, pu := range eng.unitsFor(p, props[p]) {
			res := jobs[keyOf(pu)].res
			if res.Failed != "" {
				fmt.Printf("%s\t%s/unit/analysable#0\tFAILED %s\n", p, eng.funcKeyShort(pu.fn), res.Failed)
				continue
			}
			spec := eng.specFor(pu.fn)
			for _, o := range res.Obls {
				if relevantObl(o, pu, p, spec) {
					fmt.Printf("%s\t%s\t%s\n", p, o.ID, queryHash(o.Query))
				}
			}
		}
	}
}
