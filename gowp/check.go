package main

// Registered checks: decision policy (claimed / known finding / undecided / violation), evidence, replay files.

import (
	"encoding/json"
	"flag"
	"fmt"
	"os"
	"os/exec"
	"path/filepath"
	"runtime"
	"sort"
	"strconv"
	"strings"
	"sync"
	"time"

	"golang.org/x/tools/go/ssa"
)

const verifRoot = "/verif"

// outRoot: where evidence and replay files go (a scratch directory when a check runs against a copy of the repository).
var outRoot = verifRoot

type SweepCfg struct {
	Funcs   []string `json:"funcs"`   // short function keys, trailing * allowed
	Classes []string `json:"classes"` // obligation classes claimed for these functions
}

type PropCfg struct {
	Sweep       []SweepCfg `json:"sweep,omitempty"`
	ExtraFuncs  []string   `json:"extra_funcs,omitempty"` // functions under contract elsewhere whose obligations also serve this property
	Classes     []string   `json:"contract_classes,omitempty"`
	Assumptions []string   `json:"assumptions,omitempty"`
	NotDecided  []string   `json:"not_decided,omitempty"`
}

type ClaimEntry struct {
	Result  string  `json:"result"`
	Solver  string  `json:"solver,omitempty"`
	Time    float64 `json:"time_s,omitempty"`
	Claimed bool    `json:"claimed"`
	Why     string  `json:"why_unclaimed,omitempty"`
	Func    string  `json:"func"`
}

type Claims struct {
	Props map[string]map[string]*ClaimEntry `json:"properties"`
}

type KnownFinding struct {
	Property   string `json:"property,omitempty"`
	Obligation string `json:"obligation,omitempty"`
	What       string `json:"what,omitempty"`
	DemoPkg    string `json:"demo_pkg,omitempty"`  // package directory relative to /repo the demo test is overlaid into
	DemoFile   string `json:"demo_file,omitempty"` // test file under /verif/known
	DemoTest   string `json:"demo_test,omitempty"` // test name; the test FAILS (exit!=0) while the defect is present
	Fixed      string `json:"fixed,omitempty"`     // "fixed: property=<id> <commit> <what failed>"
}

func loadJSON(path string, v interface{}) error {
	data, err := os.ReadFile(path)
	if err != nil {
		return err
	}
	return json.Unmarshal(data, v)
}

func loadProps() map[string]*PropCfg {
	m := map[string]*PropCfg{}
	if err := loadJSON(filepath.Join(verifRoot, "claims", "props.json"), &m); err != nil {
		fmt.Fprintln(os.Stderr, "props.json:", err)
		os.Exit(2)
	}
	return m
}

type propUnit struct {
	fn      *ssa.Function
	classes map[string]bool // nil = all
	sweep   bool
}

// genWorkers: how many units are symbolically executed at once (GOWP_GEN overrides).
func genWorkers() int {
	if v := os.Getenv("GOWP_GEN"); v != "" {
		if n, err := strconv.Atoi(v); err == nil && n > 0 {
			return n
		}
	}
	n := runtime.NumCPU() / 2
	if n < 1 {
		n = 1
	}
	return n
}

func hasProp(ps []string, p string) bool {
	for _, x := range ps {
		if x == p {
			return true
		}
	}
	return false
}

// unitsFor lists the functions verified for a property and, per unit, the classes generated.
func (e *Engine) unitsFor(prop string, cfg *PropCfg) []*propUnit {
	seen := map[*ssa.Function]*propUnit{}
	var out []*propUnit
	add := func(fn *ssa.Function, classes []string, sweep bool) {
		if pu, ok := seen[fn]; ok {
			if pu.classes != nil {
				if classes == nil {
					pu.classes = nil
				} else {
					for _, c := range classes {
						pu.classes[c] = true
					}
				}
			}
			return
		}
		pu := &propUnit{fn: fn, sweep: sweep}
		if classes != nil {
			pu.classes = map[string]bool{}
			for _, c := range classes {
				pu.classes[c] = true
			}
		}
		seen[fn] = pu
		out = append(out, pu)
	}
	for _, k := range e.contracts.Order {
		fs := e.contracts.Funcs[k]
		relevant := hasProp(fs.Props, prop)
		for _, cl := range append(append(append([]*Clause{}, fs.Ensures...), fs.Requires...), fs.Asserts...) {
			if hasProp(cl.Props, prop) {
				relevant = true
			}
		}
		if fn, ok := e.funcsByKey[k]; ok && relevant && fn.Blocks != nil && !fs.Flags["trusted"] {
			add(fn, nil, false)
		}
	}
	if cfg != nil {
		for _, sw := range cfg.Sweep {
			for _, fn := range e.matchFuncs(sw.Funcs) {
				if fn.Blocks != nil {
					add(fn, sw.Classes, true)
				}
			}
		}
	}
	sort.Slice(out, func(i, j int) bool { return e.funcKey(out[i].fn) < e.funcKey(out[j].fn) })
	return out
}

var safetyClasses = map[string]bool{"bounds": true, "nilmap": true, "type-assert": true, "div0": true, "rand-arg": true, "panic": true, "nilptr": true, "lock": true, "overflow": true, "go-capture": true, "nilfunc": true}

// relevant decides whether obligation o of unit pu counts for property prop.
func relevantObl(o *Obligation, pu *propUnit, prop string, spec *FuncSpec) bool {
	if o.Canary {
		return true
	}
	if len(o.Props) > 0 {
		return hasProp(o.Props, prop)
	}
	// safety obligations without property tags belong to the property through the unit
	if pu.classes != nil {
		return pu.classes[o.Class]
	}
	if spec != nil && hasProp(spec.Props, prop) {
		return true
	}
	return false
}

type oblReport struct {
	ID     string  `json:"id"`
	Class  string  `json:"class"`
	Func   string  `json:"func"`
	Pos    string  `json:"pos,omitempty"`
	Desc   string  `json:"desc"`
	Result string  `json:"result"`
	Solver string  `json:"solver,omitempty"`
	Time   float64 `json:"time_s"`
}

type checkRun struct {
	prop       string
	tier       string
	seed       int
	eng        *Engine
	cfg        *PropCfg
	obls       []*Obligation
	units      []*UnitResult
	notes      map[string]bool
	outOfReach []string
}

func (e *Engine) runProperty(prop string, cfg *PropCfg, scfg SolveCfg) *checkRun {
	cr := &checkRun{prop: prop, eng: e, cfg: cfg, notes: map[string]bool{}}
	units := e.unitsFor(prop, cfg)
	// the units are independent: generate their verification conditions in parallel, report in order
	results := make([]*UnitResult, len(units))
	{
		var wg sync.WaitGroup
		sem := make(chan struct{}, genWorkers())
		for i, pu := range units {
			wg.Add(1)
			sem <- struct{}{}
			go func(i int, pu *propUnit) {
				defer wg.Done()
				defer func() { <-sem }()
				results[i] = e.verifyUnit(pu.fn, pu.classes)
			}(i, pu)
		}
		wg.Wait()
	}
	for i, pu := range units {
		res := results[i]
		cr.units = append(cr.units, res)
		if res.Failed != "" {
			cr.outOfReach = append(cr.outOfReach, res.Func+": "+res.Failed)
			// a unit that cannot be analysed stands for all of its obligations: one pseudo-obligation carries the verdict
			cr.obls = append(cr.obls, &Obligation{ID: e.funcKeyShort(pu.fn) + "/unit/analysable#0", Class: "unit", Func: e.funcKey(pu.fn),
				Desc: "the function can be analysed against its contract: " + res.Failed, Result: "unknown", Solver: "gowp", Output: res.Failed})
			continue
		}
		cr.obls = append(cr.obls, &Obligation{ID: e.funcKeyShort(pu.fn) + "/unit/analysable#0", Class: "unit", Func: e.funcKey(pu.fn),
			Desc: "the function can be analysed against its contract", Result: "unsat", Solver: "gowp"})
		spec := e.specFor(pu.fn)
		used := false
		for _, o := range res.Obls {
			if relevantObl(o, pu, prop, spec) {
				cr.obls = append(cr.obls, o)
				used = true
			}
		}
		if used {
			for _, n := range res.Notes {
				cr.notes[n] = true
			}
		}
	}
	solveAll(cr.obls, scfg)
	return cr
}

func cmdBaseline(args []string) {
	fs := flag.NewFlagSet("baseline", flag.ExitOnError)
	timeout := fs.Int("t", 20, "solver timeout")
	maxClaim := fs.Float64("max", 8.0, "claim only obligations discharged faster than this (s)")
	fs.Parse(args)
	props := loadProps()
	eng, err := loadEngine("/repo", []string{"./..."})
	if err != nil {
		fmt.Fprintln(os.Stderr, "load:", err)
		os.Exit(2)
	}
	claims := &Claims{Props: map[string]map[string]*ClaimEntry{}}
	old := &Claims{}
	loadJSON(filepath.Join(verifRoot, "claims", "claimed.json"), old)
	only := map[string]bool{}
	for _, a := range fs.Args() {
		only[a] = true
	}
	scfg := SolveCfg{TimeoutS: *timeout, Workers: 16, TmpDir: filepath.Join(os.TempDir(), "gowp-q"), CacheDir: filepath.Join(verifRoot, ".cache")}
	for _, p := range sortedKeys(props) {
		if len(only) > 0 && !only[p] {
			if old.Props != nil && old.Props[p] != nil {
				claims.Props[p] = old.Props[p]
			}
			continue
		}
		cr := eng.runProperty(p, props[p], scfg)
		m := map[string]*ClaimEntry{}
		nc, nu := 0, 0
		for _, o := range cr.obls {
			ce := &ClaimEntry{Result: o.Result, Solver: strings.TrimSuffix(o.Solver, " (cached)"), Time: round3(o.Time), Func: o.Func}
			if o.Canary {
				ce.Claimed = o.Result == "sat"
			} else if o.Result == "unsat" && o.Time <= *maxClaim {
				ce.Claimed = true
			} else if o.Result == "unsat" {
				ce.Why = "discharged but slower than the claim threshold (unstable)"
			} else if o.Result == "sat" {
				ce.Why = "not discharged: solver reports a counter-model (contract hole, abstraction, or defect; see known_findings.json for the replayed ones)"
			} else {
				ce.Why = "undecided: solver timeout/unknown"
			}
			if ce.Claimed {
				nc++
			} else {
				nu++
			}
			m[o.ID] = ce
		}
		claims.Props[p] = m
		fmt.Printf("%s: %d obligations, %d claimed, %d unclaimed, %d units out of reach\n", p, len(cr.obls), nc, nu, len(cr.outOfReach))
		for _, x := range cr.outOfReach {
			fmt.Println("   out of reach:", x)
		}
	}
	data, _ := json.MarshalIndent(claims, "", " ")
	os.MkdirAll(filepath.Join(verifRoot, "claims"), 0o755)
	os.WriteFile(filepath.Join(verifRoot, "claims", "claimed.json"), append(data, '\n'), 0o644)
}

func round3(f float64) float64 { return float64(int(f*1000+0.5)) / 1000 }

func cmdCheck(args []string) {
	fs := flag.NewFlagSet("check", flag.ExitOnError)
	repo := fs.String("repo", "/repo", "repository root")
	fs.Parse(args)
	if fs.NArg() < 1 {
		usage()
	}
	if *repo != "/repo" {
		outRoot = filepath.Join(os.TempDir(), "gowp-scratch-out")
	}
	prop := fs.Arg(0)
	tier := "quick"
	if fs.NArg() >= 2 {
		tier = fs.Arg(1)
	}
	if t := os.Getenv("VERIF_TIER"); t == "quick" || t == "thorough" {
		if fs.NArg() < 2 {
			tier = t
		}
	}
	seed, _ := strconv.Atoi(os.Getenv("VERIF_SEED"))
	t0 := time.Now()
	props := loadProps()
	cfg, ok := props[prop]
	if !ok {
		fmt.Fprintln(os.Stderr, "unknown property", prop)
		os.Exit(2)
	}
	claims := &Claims{}
	if err := loadJSON(filepath.Join(verifRoot, "claims", "claimed.json"), claims); err != nil {
		fmt.Fprintln(os.Stderr, "claimed.json:", err)
		os.Exit(2)
	}
	var known []*KnownFinding
	loadJSON(filepath.Join(verifRoot, "claims", "known_findings.json"), &known)
	warm := make(chan struct{})
	go func() { warmSolvers(); close(warm) }()
	eng, err := loadEngine(*repo, []string{"./..."})
	<-warm
	if err != nil {
		// the tree does not load: nothing can be decided; this is a broken run, not a verdict
		fmt.Fprintln(os.Stderr, "cannot load repository:", err)
		os.Exit(2)
	}
	timeout := 20
	if tier == "thorough" {
		timeout = 60
	}
	scfg := SolveCfg{TimeoutS: timeout, Workers: 16, TmpDir: filepath.Join(os.TempDir(), "gowp-q"), CacheDir: filepath.Join(verifRoot, ".cache")}
	scfg.NoReuse = tier == "thorough"
	cr := eng.runProperty(prop, cfg, scfg)
	cr.tier, cr.seed = tier, seed
	baseline := claims.Props[prop]
	if baseline == nil {
		baseline = map[string]*ClaimEntry{}
	}
	// clause-level cleanliness: every instance (#n) of the obligation's base id was claimed at baseline. The clause is then
	// claimed as a whole: a new instance of it (the same postcondition at a new return statement, the same invariant at a new
	// back edge) that is not discharged is a violation of the clause
	baseOf := func(id string) string {
		if i := strings.LastIndex(id, "#"); i >= 0 {
			return id[:i]
		}
		return id
	}
	cleanBase := map[string]bool{}
	for id, ce := range baseline {
		b := baseOf(id)
		if _, ok := cleanBase[b]; !ok {
			cleanBase[b] = true
		}
		if !ce.Claimed {
			cleanBase[b] = false
		}
	}
	// a claimed obligation (or a new instance of a claimed clause) that timed out is retried alone with a longer limit
	// before it can become an alarm
	var retry []*Obligation
	for _, o := range cr.obls {
		if o.Result != "unknown" || o.Canary {
			continue
		}
		if ce := baseline[o.ID]; ce != nil && ce.Claimed {
			retry = append(retry, o)
		} else if ce == nil && cleanBase[baseOf(o.ID)] {
			retry = append(retry, o)
		}
	}
	if len(retry) > 0 {
		r := scfg
		r.TimeoutS, r.Workers = scfg.TimeoutS*4, 4
		solveAll(retry, r)
	}
	// function-level cleanliness at baseline: every obligation of the function was claimed
	cleanFn := map[string]bool{}
	for _, ce := range baseline {
		if _, ok := cleanFn[ce.Func]; !ok {
			cleanFn[ce.Func] = true
		}
		if !ce.Claimed {
			cleanFn[ce.Func] = false
		}
	}
	knownBy := map[string]*KnownFinding{}
	for _, k := range known {
		if k.Property == prop && k.Obligation != "" {
			knownBy[k.Obligation] = k
		}
	}
	var violations, knownHit, undecided []*Obligation
	nClaimed, nDischarged := 0, 0
	bySolver := map[string]int{}
	byClass := map[string]int{}
	var solverTime, maxTime float64
	nReused := 0
	for _, o := range cr.obls {
		ok := o.Result == "unsat"
		if o.Canary {
			// vacuity canary: only a refutation (unsat = no return reachable under the precondition) is an alarm;
			// "unknown" (quantified invariants) is inconclusive and is not counted as discharged
			if o.Result == "unknown" {
				continue
			}
			ok = o.Result == "sat"
		}
		ce := baseline[o.ID]
		claimed := ce != nil && ce.Claimed
		isNew := ce == nil
		if ok {
			if claimed || isNew {
				nClaimed++
				nDischarged++
				bySolver[strings.TrimSuffix(o.Solver, " (cached)")]++
				if strings.HasSuffix(o.Solver, " (cached)") {
					nReused++
				}
				byClass[o.Class]++
				solverTime += o.Time
				if o.Time > maxTime {
					maxTime = o.Time
				}
			}
			continue
		}
		switch {
		case knownBy[o.ID] != nil:
			knownHit = append(knownHit, o)
		case claimed:
			nClaimed++
			violations = append(violations, o)
		case isNew && cleanBase[baseOf(o.ID)]:
			nClaimed++
			violations = append(violations, o)
		case isNew && cleanFn[o.Func] && o.Result == "sat":
			nClaimed++
			violations = append(violations, o)
		default:
			undecided = append(undecided, o)
		}
	}
	// known findings: confirm each recorded demonstration still fails on the real code
	exit := 0
	var knownNames []string
	if len(knownHit) > 0 {
		confirmed := runDemos(*repo, knownHit, knownBy)
		for _, o := range knownHit {
			k := knownBy[o.ID]
			if confirmed[o.ID] {
				fmt.Printf("KNOWN-FINDING: property=%s %s [%s]\n", prop, k.What, o.ID)
				knownNames = append(knownNames, o.ID)
			} else {
				nClaimed++
				violations = append(violations, o)
			}
		}
	}
	for _, o := range violations {
		var rr *replayResult
		model := ""
		if o.Result == "sat" {
			model = modelFor(o, scfg.TmpDir, scfg.TimeoutS)
			rr = eng.replayScalar(*repo, o, model)
		}
		path := writeReplay(prop, o, model, rr)
		suffix := " no-failing-input-found"
		if rr != nil && rr.Confirmed {
			suffix = ""
		}
		fmt.Printf("VIOLATION property=%s replay=%s%s\n", prop, path, suffix)
		fmt.Printf("  obligation %s (%s) %s: %s\n", o.ID, o.Result, o.Pos, o.Desc)
		exit = 1
	}
	if len(cr.obls) == 0 {
		fmt.Fprintln(os.Stderr, "no obligations generated for", prop, "- broken check")
		exit = 2
	}
	missing := 0
	present := map[string]bool{}
	for _, o := range cr.obls {
		present[o.ID] = true
	}
	for id, ce := range baseline {
		if ce.Claimed && !present[id] {
			missing++
		}
	}
	writeEvidence(cr, nClaimed, nDischarged, nReused, bySolver, byClass, solverTime, maxTime, knownNames, undecided, violations, missing, time.Since(t0).Seconds())
	fmt.Printf("%s %s: %d claimed obligations, %d discharged, %d known findings, %d undecided (unclaimed), %d violations, %d units, %.1fs\n",
		prop, tier, nClaimed, nDischarged, len(knownNames), len(undecided), len(violations), len(cr.units), time.Since(t0).Seconds())
	os.Exit(exit)
}

// runDemos runs the recorded demonstrations (one go test invocation per package, via -overlay) and reports which still fail.
func runDemos(repo string, obls []*Obligation, knownBy map[string]*KnownFinding) map[string]bool {
	res := map[string]bool{}
	byPkg := map[string][]*KnownFinding{}
	oblOf := map[*KnownFinding][]string{}
	for _, o := range obls {
		k := knownBy[o.ID]
		if k.DemoFile == "" {
			continue
		}
		if len(oblOf[k]) == 0 {
			byPkg[k.DemoPkg] = append(byPkg[k.DemoPkg], k)
		}
		oblOf[k] = append(oblOf[k], o.ID)
	}
	tmp, _ := os.MkdirTemp("", "gowp-demo")
	defer os.RemoveAll(tmp)
	for pkg, ks := range byPkg {
		ov := map[string]map[string]string{"Replace": {}}
		var tests []string
		for i, k := range ks {
			src := filepath.Join(verifRoot, "known", k.DemoFile)
			dst := filepath.Join(repo, pkg, fmt.Sprintf("zz_gowp_known_%d_test.go", i))
			ov["Replace"][dst] = src
			tests = append(tests, k.DemoTest)
		}
		data, _ := json.Marshal(ov)
		ovf := filepath.Join(tmp, "ov_"+sanitize(pkg)+".json")
		os.WriteFile(ovf, data, 0o644)
		cmd := exec.Command("go", "test", "-overlay", ovf, "-vet=off", "-count=1", "-timeout", "120s", "-run", "^("+strings.Join(tests, "|")+")$", "-v", "./"+pkg)
		cmd.Dir = repo
		cmd.Env = append(os.Environ(), "GOFLAGS=-mod=mod", "GOPROXY=off", "GOSUMDB=off", "GOTOOLCHAIN=local")
		out, _ := cmd.CombinedOutput()
		for _, k := range ks {
			failed := strings.Contains(string(out), "--- FAIL: "+k.DemoTest)
			for _, id := range oblOf[k] {
				res[id] = failed
			}
		}
	}
	return res
}

func writeReplay(prop string, o *Obligation, model string, rr *replayResult) string {
	dir := filepath.Join(outRoot, "replays", prop)
	os.MkdirAll(dir, 0o755)
	path := filepath.Join(dir, sanitize(o.ID)+".json")
	r := map[string]interface{}{
		"property": prop, "obligation": o.ID, "class": o.Class, "function": o.Func, "position": o.Pos, "source_line": o.Src,
		"description": o.Desc, "solver_result": o.Result, "solver": o.Solver, "solver_output": truncate(o.Output, 4000),
		"model": truncate(model, 20000), "failing_input": nil,
		"note":       "no-failing-input-found: the obligation was discharged on the pinned tree and is not discharged on this tree; the solver's model (if any) is over the verifier's heap encoding and was not concretised into a Go input",
		"query_file": path + ".smt2",
	}
	if rr != nil {
		r["replay"] = rr
		if rr.Confirmed {
			r["failing_input"] = rr.Inputs
			r["note"] = "the solver's counterexample was run against the real function (go test -overlay) and the clause is false on the real result: see replay.go_test and replay.go_test_output"
		} else if rr.Attempted {
			r["note"] = "no-failing-input-found: the solver's counterexample was run against the real function and did not violate the clause there (the model lives in the verifier's abstraction); the obligation was discharged on the pinned tree and is not discharged on this tree"
		}
	}
	data, _ := json.MarshalIndent(r, "", " ")
	os.WriteFile(path, data, 0o644)
	os.WriteFile(path+".smt2", []byte(o.Query), 0o644)
	return path
}

func truncate(s string, n int) string {
	if len(s) > n {
		return s[:n] + "...(truncated)"
	}
	return s
}

func writeEvidence(cr *checkRun, nClaimed, nDischarged, nReused int, bySolver, byClass map[string]int, solverTime, maxTime float64,
	known []string, undecided, violations []*Obligation, missing int, wall float64) {
	var fns []map[string]interface{}
	for _, u := range cr.units {
		m := map[string]interface{}{"func": u.Func, "ssa_instructions": u.Insts, "obligations": len(u.Obls)}
		if u.Failed != "" {
			m["out_of_reach"] = u.Failed
		}
		fns = append(fns, m)
	}
	var samples []oblReport
	for i, o := range cr.obls {
		if len(samples) >= 6 {
			break
		}
		if (i+cr.seed)%(len(cr.obls)/6+1) == 0 {
			samples = append(samples, oblReport{o.ID, o.Class, o.Func, o.Pos, o.Desc, o.Result, o.Solver, round3(o.Time)})
		}
	}
	if len(samples) == 0 && len(cr.obls) > 0 {
		o := cr.obls[0]
		samples = append(samples, oblReport{o.ID, o.Class, o.Func, o.Pos, o.Desc, o.Result, o.Solver, round3(o.Time)})
	}
	var und []string
	for _, o := range undecided {
		und = append(und, o.ID+" ("+o.Result+")")
	}
	var notes []string
	for n := range cr.notes {
		notes = append(notes, n)
	}
	sort.Strings(notes)
	assumptions := []string{
		"go/packages + go/ssa (x/tools v0.29.0) build a faithful SSA of /repo's working tree; gowp's SSA->SMT translation is correct (DESIGN.md 2.4-2.5)",
		"solver answers 'unsat' are sound (z3 5.1.0, z3 4.8.12, cvc5 1.0)",
		"machine integers are mathematical integers (unsigned arithmetic wraps; signed overflow unchecked unless class overflow); float64 as reals; strings as (len, at) over an uninterpreted sort",
		"sequential reasoning: no other goroutine changes the state between two instructions of the function under proof; `go` statements do not interleave",
		"termination is not verified",
	}
	if cr.cfg != nil {
		assumptions = append(assumptions, cr.cfg.Assumptions...)
		for _, n := range cr.cfg.NotDecided {
			assumptions = append(assumptions, "not decided by this check: "+n)
		}
	}
	for _, n := range notes {
		assumptions = append(assumptions, "abstraction/model used: "+n)
	}
	cov := map[string]interface{}{
		"obligations": nClaimed, "discharged": nDischarged,
		"checker_cmd":              "/verif/bin/gowp check " + cr.prop + " " + cr.tier + "  (one SMT-LIB query per obligation; z3-new -smt2 -T:N, then z3, then cvc5)",
		"trusted_base":             []string{"golang.org/x/tools/go/ssa v0.29.0", "gowp VC generator (/verif/gowp)", "z3 5.1.0", "z3 4.8.12", "cvc5 1.0", "library models named under assumptions"},
		"functions_under_contract": fns, "by_solver": bySolver, "by_class": byClass,
		"solver_time_s": round3(solverTime), "max_query_time_s": round3(maxTime),
		"answers_reused_from_result_store": nReused,
		"result_store":                     "a query byte-identical (SHA-256 of the SMT-LIB text generated from the current tree) to one a solver already answered reuses that answer from /verif/.cache (not committed; absent on a fresh restore, where every query is solved); solver_time_s counts the time the answer originally took; the thorough tier never reuses answers",
		"known_findings":                   known, "unclaimed_undecided": und, "claimed_obligations_absent_from_this_tree": missing,
		"out_of_reach": cr.outOfReach, "samples": samples,
		"explanation": "obligations = claimed obligations (discharged on the pinned tree, or new on a function that was fully discharged) generated from the current tree; discharged = those answered unsat now. Known findings and obligations unclaimed at baseline are listed separately and never counted.",
	}
	if st := os.Getenv("GOWP_SELFTEST"); strings.HasPrefix(st, "SELFTEST") {
		cov["must_fail_selftest"] = st + "  (seeded property-breaking changes from /verif/seeded applied to a scratch copy; each must be reported as a violation)"
	}
	ev := map[string]interface{}{
		"property_id": cr.prop, "tier": cr.tier, "seed": cr.seed, "level": "proof", "coverage": cov,
		"assumptions": assumptions, "wall_s": round3(wall), "violations": len(violations),
	}
	data, _ := json.MarshalIndent(ev, "", " ")
	os.MkdirAll(filepath.Join(outRoot, "evidence"), 0o755)
	os.WriteFile(filepath.Join(outRoot, "evidence", cr.prop+".json"), append(data, '\n'), 0o644)
}
