package main

// Symbolic executor over go/ssa producing passive-form verification conditions.

import (
	"fmt"
	"go/ast"
	"go/constant"
	"go/token"
	"go/types"
	"math/big"
	"os"
	"path/filepath"
	"sort"
	"strconv"
	"strings"
	"sync"
	"time"

	"golang.org/x/tools/go/ssa"
)

type Val struct {
	T  string
	Ty types.Type
	S  string // explicit sort for spec-only values (Ty == nil)
}

type State struct {
	pc    string
	heap  map[string]string
	epoch int
	dead  bool
}

func (s *State) clone() *State {
	n := &State{pc: s.pc, heap: make(map[string]string, len(s.heap)), epoch: s.epoch, dead: s.dead}
	for k, v := range s.heap {
		n.heap[k] = v
	}
	return n
}

type Obligation struct {
	ID      string   `json:"id"`
	Class   string   `json:"class"`
	Func    string   `json:"func"`
	Props   []string `json:"props,omitempty"`
	Desc    string   `json:"desc"`
	Pos     string   `json:"pos"`
	Src     string   `json:"src,omitempty"`
	Inlined bool     `json:"inlined,omitempty"`
	bodyLen int
	goal    string
	Result  string  `json:"result,omitempty"`
	Solver  string  `json:"solver,omitempty"`
	Time    float64 `json:"time_s,omitempty"`
	Model   string  `json:"-"`
	Output  string  `json:"-"`
	Query   string  `json:"-"`
	Canary  bool    `json:"canary,omitempty"`
	unit    *Unit
}

type Addr struct {
	heap   string     // heap variable name; "" for whole-struct addresses
	hsort  string     // sort of the heap variable
	idx    []string   // 0 (global), 1 (field/cell) or 2 (element) index terms
	rootTy types.Type // type of the value stored at heap[idx...]
	path   []int      // nested struct field path inside the stored value
	ty     types.Type // pointee type
	base   string     // for whole-struct addresses: the reference
}

type closInfo struct {
	fn       *ssa.Function
	bindings []Val
}

type Unit struct {
	eng         *Engine
	root        *ssa.Function
	spec        *FuncSpec
	reg         *Registry
	body        []string
	obls        []*Obligation
	nfresh      int
	notes       map[string]bool // abstractions / models used
	heapSort    map[string]string
	addrIds     map[string]int
	mapTags     map[string]*types.Map
	mapWFDone   map[string]bool
	reachCache  map[string]bool
	sumDone     map[string]bool
	freshRefs   map[string]int
	allocSeq    int
	freshFloor  int
	heapInfo    map[string]heapInfo
	nextEpoch   int
	oblCount    map[string]int
	discovery   bool
	record      bool
	noObls      bool
	newWrites   map[string]map[string]bool
	pure        int
	allowedMods map[string][]string
	allowedAll  bool
	pureFail    bool
	loopWrites  map[string]map[string]bool // fn name + block index -> heap names written in loop
	sinks       []map[string]bool
	inlineStack []*ssa.Function
	entry       *State
	rootFrame   *Frame
	classes     map[string]bool
	allocEntry  string
	sweepOnly   bool
	failed      string // set when the unit cannot be analysed
	insts       int
}

type retInfo struct {
	st   *State
	vals []Val
	pos  token.Pos
	in   ssa.Instruction
}

type Frame struct {
	u           *Unit
	fn          *ssa.Function
	parent      *Frame
	vals        map[ssa.Value]Val
	addrs       map[ssa.Value]*Addr
	tuples      map[ssa.Value][]Val
	clos        map[ssa.Value]*closInfo
	out         map[int]*State
	edgeC       map[[2]int]string
	rets        []retInfo
	defers      []*ssa.Defer
	tag         string
	depth       int
	curBlk      *ssa.BasicBlock
	loopEnv     map[int]map[string]Val // header index -> name env used for invariants
	ordinals    map[int]int            // header block index -> loop ordinal
	iters       map[ssa.Value]*iterInfo
	iterByOrd   map[int]*iterInfo
	callOrd     map[string]int
	pinned      map[*ssa.FreeVar]Val // captured variables that are never reassigned after capture: their value is fixed
	headerState map[int]*State
	headerPhis  map[int]map[*ssa.Phi]Val
	spec        *FuncSpec
	params      []Val
}

type iterInfo struct {
	m      Val
	dom0   string
	seen   string // heap-local name of the seen set
	kSort  string
	isStr  bool
	idxVar string
	s      Val
	cnt    string // local counting the keys visited so far
	card0  string // cardinality of the map when the iteration started
}

// ---------- unit-level helpers ----------

func (u *Unit) note(s string) { u.notes[s] = true }

func (u *Unit) freshName(prefix string) string {
	u.nfresh++
	return fmt.Sprintf("%s!%d", sanitize(prefix), u.nfresh)
}

func (u *Unit) fresh(prefix, srt string) string {
	if u.pure > 0 {
		u.pureFail = true
		if os.Getenv("GOWP_DEBUG_PURE") != "" {
			fmt.Fprintln(os.Stderr, "pure evaluation needs a fresh value:", prefix, srt)
		}
	}
	n := u.freshName(prefix)
	u.reg.declConst(n, srt)
	return n
}

func (u *Unit) emit(line string) {
	if u.discovery || u.pure > 0 {
		return
	}
	u.body = append(u.body, line)
}

// define names a term when it is large, to keep queries linear in program size.
func (u *Unit) define(prefix, srt, term string) string {
	if len(term) <= 48 || u.pure > 0 {
		return term
	}
	if u.discovery && len(term) <= 4096 {
		return term
	}
	n := u.freshName(prefix)
	u.emit(fmt.Sprintf("(define-fun %s () %s %s)", n, srt, term))
	return n
}

func (u *Unit) assume(st *State, phi string) {
	if phi == "true" || phi == "" {
		return
	}
	u.emit("(assert " + implies(st.pc, phi) + ")")
}

func (u *Unit) assumeGlobal(phi string) {
	if phi == "true" {
		return
	}
	u.emit("(assert " + phi + ")")
}

func (u *Unit) posString(p token.Pos) string {
	if !p.IsValid() {
		return ""
	}
	pos := u.eng.fset.Position(p)
	f := pos.Filename
	if i := strings.Index(f, "/repo/"); i >= 0 {
		f = f[i+6:]
	}
	return fmt.Sprintf("%s:%d", f, pos.Line)
}

func (u *Unit) srcLine(p token.Pos) string {
	if !p.IsValid() {
		return ""
	}
	pos := u.eng.fset.Position(p)
	return strings.TrimSpace(u.eng.sourceLine(pos.Filename, pos.Line))
}

// check records an obligation "pc ==> phi" and then assumes phi.
func (u *Unit) check(fr *Frame, st *State, class, key, phi, desc string, pos token.Pos, props []string) *Obligation {
	if u.discovery || st.dead || u.pure > 0 {
		return nil
	}
	if (u.classes != nil && !u.classes[class] && !u.classes["*"]) || u.noObls {
		u.assume(st, phi)
		return nil
	}
	if phi == "true" {
		return nil
	}
	inl := fr != nil && fr.parent != nil
	src := u.srcLine(pos)
	if key == "" {
		key = hash8(src)
	}
	if inl {
		key = "inl." + sanitize(fr.fn.Name()) + "." + key
	}
	base := fmt.Sprintf("%s/%s/%s", u.eng.funcKeyShort(u.root), class, key)
	n := u.oblCount[base]
	u.oblCount[base] = n + 1
	o := &Obligation{ID: fmt.Sprintf("%s#%d", base, n), Class: class, Func: u.eng.funcKey(u.root), Props: props, Desc: desc,
		Pos: u.posString(pos), Src: src, Inlined: inl, bodyLen: len(u.body), goal: and(st.pc, not(phi)), unit: u}
	u.obls = append(u.obls, o)
	u.assume(st, phi)
	return o
}

func (u *Unit) hsortOf(name string) string { return u.heapSort[name] }

func (u *Unit) hget(st *State, name, srt string) string {
	if t, ok := st.heap[name]; ok {
		return t
	}
	if s0, ok := u.heapSort[name]; !ok || s0 == "" {
		if srt == "" {
			srt = builtinGhostSort(name)
		}
		u.heapSort[name] = srt
	}
	srt = u.heapSort[name]
	if srt == "" {
		panic("heap variable " + name + " used before its sort is known")
	}
	c := fmt.Sprintf("%s@%d", name, st.epoch)
	if _, seen := u.reg.consts[c]; !seen {
		u.reg.declConst(c, srt)
		if name != "$alloc" {
			a := fmt.Sprintf("$alloc@%d", st.epoch)
			u.reg.declConst(a, sInt)
			u.wfHeap(name, c, a)
		}
		if tag, ok := mapTagOf(name); ok {
			if mt := u.mapTags[tag]; mt != nil {
				// the three components of one epoch are materialised together and related by mapWF
				var cs [3]string
				for i, pfx := range []string{"Mdom_", "Mval_", "Mcard_"} {
					n := pfx + tag
					cs[i] = fmt.Sprintf("%s@%d", n, st.epoch)
					if _, seen := u.reg.consts[cs[i]]; !seen {
						u.reg.declConst(cs[i], u.heapSort[n])
						if pfx == "Mval_" {
							a := fmt.Sprintf("$alloc@%d", st.epoch)
							u.reg.declConst(a, sInt)
							u.wfHeap(n, cs[i], a)
						}
					}
				}
				key := fmt.Sprintf("%s@%d", tag, st.epoch)
				if !u.mapWFDone[key] {
					u.mapWFDone[key] = true
					u.mapWF(tag, cs[0], cs[1], cs[2], u.sortOf(mt.Key()), u.zero(mt.Elem()))
				}
			}
		}
	}
	st.heap[name] = c
	return c
}

func (u *Unit) hset(st *State, name, srt, term string) {
	if _, ok := u.heapSort[name]; !ok {
		u.heapSort[name] = srt
	}
	for _, s := range u.sinks {
		s[name] = true
	}
	st.heap[name] = u.define(name, srt, term)
}

func isLocalName(n string) bool { return strings.HasPrefix(n, "%") }

func (u *Unit) havocAll(st *State, why string) {
	u.havocAllX(st, why, false)
}

// havocAllX: external=true means the unknown code lives outside the repository: it cannot reach the ghost state that
// contracts declare (that state only changes through contracts), so ghosts survive.
func (u *Unit) havocAllX(st *State, why string, external bool) {
	if st.dead {
		return
	}
	if u.unreachable(st) {
		// the abstraction would only be applied on a path the precondition rules out: prune the path instead
		st.dead = true
		st.pc = "false"
		return
	}
	u.note("havoc-all: " + why)
	for _, s := range u.sinks {
		s["*"] = true
	}
	if external {
		// ghosts that have not been read yet must keep their current (epoch) value across the havoc as well
		// in name order: hget declares the epoch constant on first use, and the text of a query may not depend on
		// map iteration order
		gs := make([]string, 0, len(u.eng.contracts.Ghosts))
		for g := range u.eng.contracts.Ghosts {
			gs = append(gs, g)
		}
		sort.Strings(gs)
		for _, g := range gs {
			if srt := u.eng.contracts.Ghosts[g]; !strings.HasPrefix(srt, "const ") {
				u.hget(st, g, srt)
			}
		}
		for _, g := range []string{"$atomic", "$hashin"} {
			if _, ok := u.heapSort[g]; ok {
				u.hget(st, g, u.heapSort[g])
			}
		}
	}
	oldAlloc := u.hget(st, "$alloc", sInt)
	nh := map[string]string{}
	for k, v := range st.heap {
		if isLocalName(k) || k == "$lock" || k == "$now" || (external && strings.HasPrefix(k, "$") && k != "$alloc") {
			nh[k] = v // locals, the lockset of this goroutine and the ghost clock survive unknown calls (callees are lock-balanced: checked per function)
		}
	}
	u.nextEpoch++
	st.epoch = u.nextEpoch
	st.heap = nh
	na := u.hget(st, "$alloc", sInt)
	u.assume(st, sx(">=", na, oldAlloc))
}

func (u *Unit) havocName(st *State, name string) {
	srt, ok := u.heapSort[name]
	if !ok {
		return
	}
	if name == "$alloc" {
		old := u.hget(st, name, srt)
		n := u.fresh(name, srt)
		u.hset(st, name, srt, n)
		u.assume(st, sx(">=", n, old))
		return
	}
	if tag, ok := mapTagOf(name); ok && u.mapTags[tag] != nil {
		// havoc the three components of a map heap together so that mapWF can be re-stated for the new versions
		mt := u.mapTags[tag]
		var cs [3]string
		for i, pfx := range []string{"Mdom_", "Mval_", "Mcard_"} {
			n := pfx + tag
			u.hget(st, n, u.heapSort[n])
			cs[i] = u.fresh(n, u.heapSort[n])
			u.hset(st, n, u.heapSort[n], cs[i])
			u.wfHeap(n, cs[i], u.hget(st, "$alloc", sInt))
		}
		u.mapWF(tag, cs[0], cs[1], cs[2], u.sortOf(mt.Key()), u.zero(mt.Elem()))
		return
	}
	c := u.fresh(name, srt)
	u.hset(st, name, srt, c)
	u.wfHeap(name, c, u.hget(st, "$alloc", sInt))
}

func mapTagOf(name string) (string, bool) {
	for _, pfx := range []string{"Mdom_", "Mval_", "Mcard_"} {
		if strings.HasPrefix(name, pfx) {
			return strings.TrimPrefix(name, pfx), true
		}
	}
	return "", false
}

// alloc returns a fresh reference.
func (u *Unit) alloc(st *State) string {
	a := u.hget(st, "$alloc", sInt)
	r := u.define("ref", sInt, a)
	u.hset(st, "$alloc", sInt, sx("+", a, "1"))
	u.allocSeq++
	u.freshRefs[r] = u.allocSeq
	u.freshRefs[a] = u.allocSeq
	return r
}

// markWrite records, for callback write-set analysis, whether a heap write targets an object allocated since freshFloor.
func (u *Unit) markWrite(name, idx0 string) {
	if seq, ok := u.freshRefs[idx0]; ok && u.freshFloor > 0 && seq >= u.freshFloor {
		return
	}
	for _, s := range u.sinks {
		s["!"+name] = true
	}
}

// ---------- types & facts ----------

func (u *Unit) sortOf(t types.Type) string { return u.reg.sortOf(t) }

func (u *Unit) zero(t types.Type) string {
	if isTimeType(t) {
		return "0"
	}
	switch tt := t.Underlying().(type) {
	case *types.Basic:
		switch {
		case tt.Info()&types.IsBoolean != 0:
			return "false"
		case tt.Info()&types.IsFloat != 0:
			return "0.0"
		case tt.Info()&types.IsString != 0:
			return u.reg.strLit("")
		}
		return "0"
	case *types.Slice:
		return "(mkslice 0 0 0 0)"
	case *types.Interface:
		return "A_nil"
	case *types.Struct:
		srt := u.reg.structSort(t)
		si := u.reg.structs[srt]
		if len(si.fields) == 0 {
			return si.ctor
		}
		var a []string
		for i := 0; i < tt.NumFields(); i++ {
			a = append(a, u.zero(tt.Field(i).Type()))
		}
		return sx(si.ctor, a...)
	case *types.Array:
		return u.constArray(sInt, u.sortOf(tt.Elem()), u.zero(tt.Elem()))
	}
	if u.sortOf(t) == sAny {
		return "A_nil"
	}
	return "0"
}

func isPointerLike(t types.Type) bool {
	switch t.Underlying().(type) {
	case *types.Pointer, *types.Map, *types.Chan, *types.Signature:
		return true
	}
	return false
}

// facts returns well-typedness facts of a term of Go type t (allocation frontier taken from st).
func (u *Unit) facts(st *State, term string, t types.Type) string {
	if t == nil || isTimeType(t) {
		return "true"
	}
	switch tt := t.Underlying().(type) {
	case *types.Basic:
		if tt.Info()&types.IsInteger != 0 {
			lo, hi := intRange(tt)
			return and(sx("<=", bigLit(lo), term), sx("<=", term, bigLit(hi)))
		}
	case *types.Pointer, *types.Map, *types.Chan:
		a := u.hget(st, "$alloc", sInt)
		return and(sx("<=", "0", term), sx("<", term, a))
	case *types.Signature:
		return sx("<=", "0", term)
	case *types.Slice:
		a := u.hget(st, "$alloc", sInt)
		return and(sx("<=", "0", sx("s_arr", term)), sx("<", sx("s_arr", term), a), sx("<=", "0", sx("s_off", term)), sx("<=", "0", sx("s_len", term)),
			sx("<=", sx("s_len", term), sx("s_cap", term)), implies(eq(sx("s_arr", term), "0"), eq(sx("s_cap", term), "0")))
	case *types.Struct:
		srt := u.reg.structSort(t)
		si := u.reg.structs[srt]
		var fs []string
		for i := 0; i < tt.NumFields(); i++ {
			ft := tt.Field(i).Type()
			if _, isStruct := ft.Underlying().(*types.Struct); isStruct && !isTimeType(ft) {
				continue // keep facts shallow
			}
			fs = append(fs, u.facts(st, sx(si.sel(i), term), ft))
		}
		return and(fs...)
	}
	return "true"
}

func (u *Unit) freshVal(st *State, prefix string, t types.Type) Val {
	n := u.fresh(prefix, u.sortOf(t))
	u.assume(st, u.facts(st, n, t))
	return Val{n, t, ""}
}

// ---------- constants ----------

func (u *Unit) constVal(c *ssa.Const) Val {
	t := c.Type()
	if c.Value == nil {
		return Val{u.zero(t), t, ""}
	}
	switch c.Value.Kind() {
	case constant.Bool:
		if constant.BoolVal(c.Value) {
			return Val{"true", t, ""}
		}
		return Val{"false", t, ""}
	case constant.String:
		return Val{u.reg.strLit(constant.StringVal(c.Value)), t, ""}
	case constant.Int:
		if b, ok := t.Underlying().(*types.Basic); ok && b.Info()&types.IsFloat != 0 {
			r, _ := new(big.Rat).SetString(c.Value.ExactString())
			return Val{realLit(r), t, ""}
		}
		n, _ := new(big.Int).SetString(c.Value.ExactString(), 10)
		return Val{bigLit(n), t, ""}
	case constant.Float:
		r, ok := new(big.Rat).SetString(c.Value.ExactString())
		if !ok {
			f, _ := constant.Float64Val(c.Value)
			r = new(big.Rat).SetFloat64(f)
			if r == nil {
				r = new(big.Rat)
			}
		}
		if b, ok := t.Underlying().(*types.Basic); ok && b.Info()&types.IsInteger != 0 {
			return Val{bigLit(new(big.Int).Quo(r.Num(), r.Denom())), t, ""}
		}
		return Val{realLit(r), t, ""}
	}
	return Val{u.zero(t), t, ""}
}

// ---------- frames ----------

func (u *Unit) newFrame(fn *ssa.Function, parent *Frame) *Frame {
	fr := &Frame{u: u, fn: fn, parent: parent, vals: map[ssa.Value]Val{}, addrs: map[ssa.Value]*Addr{}, tuples: map[ssa.Value][]Val{},
		clos: map[ssa.Value]*closInfo{}, out: map[int]*State{}, edgeC: map[[2]int]string{}, loopEnv: map[int]map[string]Val{}, iters: map[ssa.Value]*iterInfo{}}
	if parent != nil {
		fr.depth = parent.depth + 1
	}
	u.nfresh++
	fr.tag = fmt.Sprintf("f%d", u.nfresh)
	return fr
}

func (fr *Frame) val(st *State, v ssa.Value) Val {
	u := fr.u
	switch x := v.(type) {
	case *ssa.Const:
		return u.constVal(x)
	case *ssa.Global:
		n := "gaddr_" + sanitize(x.Pkg.Pkg.Name()+"_"+x.Name())
		u.reg.declConst(n, sInt)
		return Val{n, x.Type(), ""}
	case *ssa.Function:
		n := "fn_" + sanitize(u.eng.funcKeyShort(x))
		u.reg.declConst(n, sInt)
		fr.clos[v] = &closInfo{fn: x}
		return Val{n, x.Type(), ""}
	case *ssa.Builtin:
		return Val{"0", x.Type(), ""}
	}
	if r, ok := fr.vals[v]; ok {
		return r
	}
	if a, ok := fr.addrs[v]; ok {
		// an address used as a first-class pointer value
		r := fr.addrToRef(st, a)
		fr.vals[v] = Val{r, v.Type(), ""}
		return fr.vals[v]
	}
	// undefined (e.g. value from a block that was not executed): havoc
	r := u.freshVal(st, "undef_"+v.Name(), v.Type())
	fr.vals[v] = r
	return r
}

func (fr *Frame) addrToRef(st *State, a *Addr) string {
	u := fr.u
	if a.heap == "" {
		return a.base
	}
	if len(a.idx) == 1 && len(a.path) == 0 && strings.HasPrefix(a.heap, "Cell_") {
		return a.idx[0]
	}
	// field / element address escaping as a pointer: uninterpreted injective-by-name function
	fn := "addr_" + a.heap
	for _, p := range a.path {
		fn += fmt.Sprintf("_%d", p)
	}
	u.note("address-of field/element used as a value: " + a.heap)
	return u.addrTerm(fn, a.idx)
}

// addrTerm: the address of a field (or element) as an integer that cannot collide with an object reference
// or with the address of another field: -(4096*(4096*i0 + i1) + k), k the per-name ordinal (refs are >= 0).
func (u *Unit) addrTerm(fn string, idx []string) string {
	k, ok := u.addrIds[fn]
	if !ok {
		k = len(u.addrIds) + 1
		u.addrIds[fn] = k
	}
	switch len(idx) {
	case 0:
		return fmt.Sprintf("(- %d)", k)
	case 1:
		return fmt.Sprintf("(- (- (* 4096 %s)) %d)", idx[0], k)
	}
	return fmt.Sprintf("(- (- (* 16777216 %s)) (* 4096 %s) %d)", idx[0], idx[1], k)
}

// addrOf yields the symbolic address denoted by pointer-valued v.
func (fr *Frame) addrOf(st *State, v ssa.Value) *Addr {
	if a, ok := fr.addrs[v]; ok {
		return a
	}
	u := fr.u
	if g, ok := v.(*ssa.Global); ok {
		et := g.Type().(*types.Pointer).Elem()
		name := "G_" + sanitize(g.Pkg.Pkg.Name()+"_"+g.Name())
		return &Addr{heap: name, hsort: u.sortOf(et), rootTy: et, ty: et}
	}
	p := fr.val(st, v)
	pt, ok := p.Ty.Underlying().(*types.Pointer)
	if !ok {
		u.note("dereference of non-pointer typed value")
		return &Addr{heap: u.cellHeapName(types.NewInterfaceType(nil, nil)), hsort: "(Array Int Any)", idx: []string{p.T}, rootTy: types.NewInterfaceType(nil, nil), ty: types.NewInterfaceType(nil, nil)}
	}
	return fr.addrOfRef(p.T, pt.Elem())
}

func (fr *Frame) addrOfRef(ref string, et types.Type) *Addr {
	u := fr.u
	if _, isStruct := et.Underlying().(*types.Struct); isStruct && !isTimeType(et) {
		return &Addr{base: ref, ty: et}
	}
	if at, isArr := et.Underlying().(*types.Array); isArr {
		_ = at
		return &Addr{base: ref, ty: et}
	}
	srt := u.sortOf(et)
	return &Addr{heap: u.cellHeapName(et), hsort: "(Array Int " + srt + ")", idx: []string{ref}, rootTy: et, ty: et}
}

func fieldHeap(u *Unit, structTy types.Type, i int) (string, string, types.Type) {
	srt := u.reg.structSort(structTy)
	si := u.reg.structs[srt]
	ft := si.st.Field(i).Type()
	n := "F_" + strings.TrimPrefix(srt, "S_") + "_" + sanitize(si.fields[i])
	if _, ok := u.heapInfo[n]; !ok {
		u.heapInfo[n] = heapInfo{levels: 1, elemTy: ft}
	}
	return n, "(Array Int " + u.sortOf(ft) + ")", ft
}

func (u *Unit) readHeapAt(st *State, a *Addr) string {
	h := u.hget(st, a.heap, a.hsort)
	switch len(a.idx) {
	case 0:
		return h
	case 1:
		return sel(h, a.idx[0])
	default:
		return sel(sel(h, a.idx[0]), a.idx[1])
	}
}

func (u *Unit) writeHeapAt(st *State, a *Addr, v string) {
	h := u.hget(st, a.heap, a.hsort)
	if len(a.idx) > 0 {
		u.markWrite(a.heap, a.idx[0])
	} else {
		u.markWrite(a.heap, "")
	}
	switch len(a.idx) {
	case 0:
		u.hset(st, a.heap, a.hsort, v)
	case 1:
		u.hset(st, a.heap, a.hsort, store(h, a.idx[0], v))
	default:
		u.hset(st, a.heap, a.hsort, store(h, a.idx[0], store(sel(h, a.idx[0]), a.idx[1], v)))
	}
}

func (fr *Frame) load(st *State, a *Addr) Val {
	u := fr.u
	if a.heap == "" {
		// whole struct or array behind a reference
		if stt, ok := a.ty.Underlying().(*types.Struct); ok {
			srt := u.reg.structSort(a.ty)
			si := u.reg.structs[srt]
			if stt.NumFields() == 0 {
				return Val{si.ctor, a.ty, ""}
			}
			var fs []string
			for i := 0; i < stt.NumFields(); i++ {
				hn, hs, _ := fieldHeap(u, a.ty, i)
				fs = append(fs, sel(u.hget(st, hn, hs), a.base))
			}
			return Val{sx(si.ctor, fs...), a.ty, ""}
		}
		at := a.ty.Underlying().(*types.Array)
		es := u.sortOf(at.Elem())
		return Val{sel(u.hget(st, u.elemHeapName(at.Elem()), "(Array Int (Array Int "+es+"))"), a.base), a.ty, ""}
	}
	t := u.readHeapAt(st, a)
	ty := a.rootTy
	for _, p := range a.path {
		si := u.reg.structs[u.reg.structSort(ty)]
		t = sx(si.sel(p), t)
		ty = si.st.Field(p).Type()
	}
	return Val{t, a.ty, ""}
}

func (u *Unit) rebuild(ty types.Type, old string, path []int, v string) string {
	if len(path) == 0 {
		return v
	}
	si := u.reg.structs[u.reg.structSort(ty)]
	var fs []string
	for i := range si.fields {
		if i == path[0] {
			fs = append(fs, u.rebuild(si.st.Field(i).Type(), sx(si.sel(i), old), path[1:], v))
		} else {
			fs = append(fs, sx(si.sel(i), old))
		}
	}
	return sx(si.ctor, fs...)
}

func (fr *Frame) storeTo(st *State, a *Addr, v Val) {
	u := fr.u
	if a.heap == "" {
		if stt, ok := a.ty.Underlying().(*types.Struct); ok {
			si := u.reg.structs[u.reg.structSort(a.ty)]
			for i := 0; i < stt.NumFields(); i++ {
				hn, hs, _ := fieldHeap(u, a.ty, i)
				u.markWrite(hn, a.base)
				u.hset(st, hn, hs, store(u.hget(st, hn, hs), a.base, sx(si.sel(i), v.T)))
			}
			return
		}
		at := a.ty.Underlying().(*types.Array)
		es := u.sortOf(at.Elem())
		hn, hs := u.elemHeapName(at.Elem()), "(Array Int (Array Int "+es+"))"
		u.hset(st, hn, hs, store(u.hget(st, hn, hs), a.base, v.T))
		return
	}
	if len(a.path) == 0 {
		u.writeHeapAt(st, a, v.T)
		return
	}
	old := u.define("old", u.sortOf(a.rootTy), u.readHeapAt(st, a))
	u.writeHeapAt(st, a, u.rebuild(a.rootTy, old, a.path, v.T))
}

// ---------- control flow ----------

type loopInfo struct {
	header int
	blocks map[int]bool
	back   [][2]int
}

func rpo(fn *ssa.Function) []*ssa.BasicBlock {
	seen := map[int]bool{}
	var post []*ssa.BasicBlock
	var dfs func(b *ssa.BasicBlock)
	dfs = func(b *ssa.BasicBlock) {
		seen[b.Index] = true
		for _, s := range b.Succs {
			if !seen[s.Index] {
				dfs(s)
			}
		}
		post = append(post, b)
	}
	if len(fn.Blocks) > 0 {
		dfs(fn.Blocks[0])
	}
	for i, j := 0, len(post)-1; i < j; i, j = i+1, j-1 {
		post[i], post[j] = post[j], post[i]
	}
	return post
}

func findLoops(fn *ssa.Function) map[int]*loopInfo {
	loops := map[int]*loopInfo{}
	for _, b := range fn.Blocks {
		for _, s := range b.Succs {
			if s.Dominates(b) {
				li := loops[s.Index]
				if li == nil {
					li = &loopInfo{header: s.Index, blocks: map[int]bool{s.Index: true}}
					loops[s.Index] = li
				}
				li.back = append(li.back, [2]int{b.Index, s.Index})
				// natural loop: nodes reaching b without passing through s
				stack := []*ssa.BasicBlock{b}
				for len(stack) > 0 {
					n := stack[len(stack)-1]
					stack = stack[:len(stack)-1]
					if li.blocks[n.Index] {
						continue
					}
					li.blocks[n.Index] = true
					for _, p := range n.Preds {
						stack = append(stack, p)
					}
				}
			}
		}
	}
	return loops
}

// loopOrdinals numbers loop headers in source order of their position.
func loopOrdinals(fn *ssa.Function, loops map[int]*loopInfo) map[int]int {
	type hp struct {
		h   int
		pos token.Pos
	}
	var hs []hp
	for h := range loops {
		b := fn.Blocks[h]
		var p token.Pos
		// position: the earliest valid position among instructions of the loop header / body
		best := token.Pos(0)
		for bi := range loops[h].blocks {
			for _, in := range fn.Blocks[bi].Instrs {
				if ip := in.Pos(); ip.IsValid() && (best == 0 || ip < best) {
					best = ip
				}
			}
		}
		_ = b
		p = best
		hs = append(hs, hp{h, p})
	}
	sort.Slice(hs, func(i, j int) bool {
		if hs[i].pos != hs[j].pos {
			return hs[i].pos < hs[j].pos
		}
		return hs[i].h < hs[j].h
	})
	out := map[int]int{}
	for i, x := range hs {
		out[x.h] = i
	}
	return out
}

func (fr *Frame) mergeStates(b *ssa.BasicBlock, ins []*State, conds []string) *State {
	u := fr.u
	if len(ins) == 1 {
		st := ins[0].clone()
		st.pc = u.define(fmt.Sprintf("pc_%s_b%d", fr.tag, b.Index), sBool, conds[0])
		return st
	}
	st := &State{heap: map[string]string{}}
	st.pc = u.define(fmt.Sprintf("pc_%s_b%d", fr.tag, b.Index), sBool, or(conds...))
	// epoch: if they differ, materialise per-state constants
	names := map[string]bool{}
	for _, s := range ins {
		for k := range s.heap {
			names[k] = true
		}
	}
	st.epoch = ins[0].epoch
	same := true
	for _, s := range ins {
		if s.epoch != st.epoch {
			same = false
		}
	}
	if !same {
		// all heap names known to the unit must be merged explicitly
		for k := range u.heapSort {
			if !isLocalName(k) {
				names[k] = true
			}
		}
		u.nextEpoch++
		st.epoch = u.nextEpoch
	}
	ks := make([]string, 0, len(names))
	for k := range names {
		ks = append(ks, k)
	}
	sort.Strings(ks)
	for _, k := range ks {
		srt := u.heapSort[k]
		var ts []string
		allSame := true
		for _, s := range ins {
			t, ok := s.heap[k]
			if !ok {
				if isLocalName(k) {
					t = u.localDefault(k)
				} else {
					t = u.hget(s, k, srt)
				}
			}
			ts = append(ts, t)
			if t != ts[0] {
				allSame = false
			}
		}
		if allSame {
			st.heap[k] = ts[0]
			continue
		}
		term := ts[len(ts)-1]
		for i := len(ts) - 2; i >= 0; i-- {
			term = ite(conds[i], ts[i], term)
		}
		st.heap[k] = u.define(k+"_m", srt, term)
	}
	return st
}

func (u *Unit) localDefault(k string) string {
	switch u.heapSort[k] {
	case sBool:
		return "false"
	case sInt:
		return "0"
	}
	n := "dflt_" + sanitize(k)
	u.reg.declConst(n, u.heapSort[k])
	return n
}

// run executes the function body from the given entry state.
func (fr *Frame) run(entry *State) {
	u := fr.u
	fn := fr.fn
	loops := findLoops(fn)
	fr.ordinals = loopOrdinals(fn, loops)
	order := rpo(fn)
	isBack := func(p, s *ssa.BasicBlock) bool { return s.Dominates(p) }
	for _, b := range order {
		if u.failed != "" {
			return
		}
		var st *State
		if b.Index == 0 {
			st = entry.clone()
		} else {
			var ins []*State
			var conds []string
			var predIdx []int
			for pi, p := range b.Preds {
				if isBack(p, b) {
					continue
				}
				ps := fr.out[p.Index]
				if ps == nil || ps.dead {
					continue
				}
				c := ps.pc
				if ec, ok := fr.edgeC[[2]int{p.Index, b.Index}]; ok {
					c = and(ps.pc, ec)
				}
				ins = append(ins, ps)
				conds = append(conds, c)
				predIdx = append(predIdx, pi)
			}
			if len(ins) == 0 {
				continue // unreachable
			}
			st = fr.mergeStates(b, ins, conds)
			// phis
			li := loops[b.Index]
			if li == nil {
				for _, in := range b.Instrs {
					phi, ok := in.(*ssa.Phi)
					if !ok {
						break
					}
					var ts []string
					for k, pi := range predIdx {
						ts = append(ts, fr.val(ins[k], phi.Edges[pi]).T)
					}
					term := ts[len(ts)-1]
					for i := len(ts) - 2; i >= 0; i-- {
						term = ite(conds[i], ts[i], term)
					}
					fr.vals[phi] = Val{u.define(fr.tag+"_"+phi.Name(), u.sortOf(phi.Type()), term), phi.Type(), ""}
				}
			} else {
				fr.enterLoop(b, li, st, ins, conds, predIdx)
			}
		}
		fr.curBlk = b
		sink := map[string]bool{}
		u.sinks = append(u.sinks, sink)
		fr.execBlock(b, st, loops)
		u.sinks = u.sinks[:len(u.sinks)-1]
		if u.record {
			for _, li := range loops {
				if li.blocks[b.Index] {
					key := fmt.Sprintf("%s#%d", u.eng.funcKey(fn), li.header)
					if u.newWrites[key] == nil {
						u.newWrites[key] = map[string]bool{}
					}
					for k := range sink {
						if !strings.HasPrefix(k, "!") {
							u.newWrites[key][k] = true
						}
					}
				}
			}
		}
	}
}

// loop invariants for header b of this frame's function
func (fr *Frame) loopInvariants(b *ssa.BasicBlock) []*Clause {
	if fr.spec == nil {
		return nil
	}
	if ls, ok := fr.spec.Loops[fr.ordinals[b.Index]]; ok {
		return ls.Invariants
	}
	return nil
}

func (fr *Frame) headerEnv(b *ssa.BasicBlock, phiVals map[*ssa.Phi]Val) map[string]Val {
	env := fr.baseEnv()
	for phi, v := range phiVals {
		if phi.Comment != "" {
			env[phi.Comment] = v
		}
		env[phi.Name()] = v
		// "for _, x := range <expr>" over a slice: the (unnamed) slice being ranged over is exposed as rangeslice
		if phi.Comment == "rangeindex" {
			if refs := phi.Referrers(); refs != nil {
				for _, r := range *refs {
					inc, ok := r.(*ssa.BinOp)
					if !ok || inc.Op != token.ADD {
						continue
					}
					if irefs := inc.Referrers(); irefs != nil {
						for _, ir := range *irefs {
							if ia, ok := ir.(*ssa.IndexAddr); ok && ia.Index == ssa.Value(inc) {
								if _, isSlice := ia.X.Type().Underlying().(*types.Slice); isSlice {
									if sv, ok := fr.vals[ia.X]; ok {
										env["rangeslice"] = sv
									} else if _, isParam := ia.X.(*ssa.Parameter); isParam {
										env["rangeslice"] = fr.vals[ia.X]
									}
								}
							}
						}
					}
				}
			}
		}
	}
	return env
}

// localAt resolves a source-level local variable name to its value at loop header b: a header phi (by name), else a value
// defined outside the loop that a DebugRef inside the loop (or in a dominating block) binds to that name.
func (fr *Frame) localAt(b *ssa.BasicBlock, li *loopInfo) func(string, *State) (Val, bool) {
	return func(name string, st *State) (Val, bool) {
		var best ssa.Value
		var bestAddr bool
		bestRank := -1
		for _, blk := range fr.fn.Blocks {
			inLoop := li.blocks[blk.Index]
			if !inLoop && !blk.Dominates(b) {
				continue
			}
			for ii, in := range blk.Instrs {
				dr, ok := in.(*ssa.DebugRef)
				if !ok {
					continue
				}
				id, ok := dr.Expr.(*ast.Ident)
				if !ok || id.Name != name {
					continue
				}
				// the bound value must be defined outside the loop (loop-invariant) unless it is an address
				if vi, isInstr := dr.X.(ssa.Instruction); isInstr && !dr.IsAddr {
					if vb := vi.Block(); vb != nil && li.blocks[vb.Index] {
						continue
					}
				}
				rank := 0
				if inLoop {
					rank = 1 << 20
				} else {
					// deeper dominators are later in dominance: approximate by dominator depth via index order
					d := 0
					for x := blk; x != nil; x = x.Idom() {
						d++
					}
					rank = d*1000 + ii
				}
				if rank > bestRank {
					bestRank, best, bestAddr = rank, dr.X, dr.IsAddr
				}
			}
		}
		if best == nil {
			return Val{}, false
		}
		if bestAddr {
			return fr.load(st, fr.addrOf(st, best)), true
		}
		return fr.val(st, best), true
	}
}

// localsAt resolves a source-level local variable at instruction `at`: the value bound by the closest DebugRef that
// precedes `at` in its block or sits in a dominating block (deepest dominator wins).
func (fr *Frame) localsAt(at ssa.Instruction) func(string, *State) (Val, bool) {
	return func(name string, st *State) (Val, bool) {
		ab := at.Block()
		var best ssa.Value
		bestAddr := false
		bestRank := -1
		for _, blk := range fr.fn.Blocks {
			if blk != ab && !blk.Dominates(ab) {
				continue
			}
			depth := 0
			for x := blk; x != nil; x = x.Idom() {
				depth++
			}
			for ii, in := range blk.Instrs {
				if blk == ab && in == at {
					break
				}
				if ph, ok := in.(*ssa.Phi); ok && ph.Comment == name {
					// the variable's reaching definition after a merge is the phi, not the last dominating assignment
					if rank := depth*100000 + ii; rank > bestRank {
						bestRank, best, bestAddr = rank, ph, false
					}
					continue
				}
				if ph, ok := in.(*ssa.Phi); ok && ph.Comment == name {
					// the variable's reaching definition after a merge is the phi, not the last dominating assignment
					if rank := depth*100000 + ii; rank > bestRank {
						bestRank, best, bestAddr = rank, ph, false
					}
					continue
				}
				dr, ok := in.(*ssa.DebugRef)
				if !ok {
					continue
				}
				id, ok := dr.Expr.(*ast.Ident)
				if !ok || id.Name != name {
					continue
				}
				if rank := depth*100000 + ii; rank > bestRank {
					bestRank, best, bestAddr = rank, dr.X, dr.IsAddr
				}
			}
		}
		if best == nil {
			return Val{}, false
		}
		if bestAddr {
			return fr.load(st, fr.addrOf(st, best)), true
		}
		return fr.val(st, best), true
	}
}

// countCall bumps the ghost call counter of `name` (function or field name) and runs the contract's call-site asserts.
func (fr *Frame) countCall(st *State, name string, in ssa.Instruction, pos token.Pos, args []Val) {
	u := fr.u
	if fr.parent != nil || name == "" {
		return
	}
	cn := "%calls_" + sanitize(name)
	if u.spec != nil && !u.discovery {
		n := fr.callOrd[name]
		for _, cl := range u.spec.Asserts {
			if cl.Kind != fmt.Sprintf("assert@%s#%d", name, n) {
				continue
			}
			aenv := fr.baseEnv()
			for i, a := range args {
				aenv[fmt.Sprintf("arg%d", i)] = a
			}
			t, err := u.specBool(cl.Expr, &specCtx{fr: fr, cur: st, old: u.entry, env: aenv, local: fr.localsAt(in)})
			if err != nil {
				u.failed = fmt.Sprintf("%s:%d: %v", cl.File, cl.Line, err)
				return
			}
			u.check(fr, st, "assert", fmt.Sprintf("%s.%d.%s", sanitize(name), n, clauseKey(cl)), t, "at call #"+fmt.Sprint(n)+" of "+name+": "+cl.Text, pos, cl.Props)
		}
	}
	if fr.callOrd == nil {
		fr.callOrd = map[string]int{}
	}
	fr.callOrd[name]++
	if _, ok := u.heapSort[cn]; !ok {
		u.heapSort[cn] = sInt
	}
	cur, ok := st.heap[cn]
	if !ok {
		cur = "0"
	}
	st.heap[cn] = u.define("calls", sInt, sx("+", cur, "1"))
	for _, s := range u.sinks {
		s[cn] = true
	}
}

// loopFrameNames: heap variables written in a loop of the root function for which the modifies clause yields a frame invariant.
func (fr *Frame) loopFrameNames(ws map[string]bool) []string {
	u := fr.u
	if fr.parent != nil || u.spec == nil || !u.spec.HasMod || u.discovery || ws["*"] {
		return nil
	}
	var out []string
	for k := range ws {
		if !isLocalName(k) && k != "$alloc" && k != "$lock" && k != "$now" {
			out = append(out, k)
		}
	}
	sort.Strings(out)
	return out
}

// loopIter returns the map iterator advanced in loop header b, if any.
func (fr *Frame) loopIter(b *ssa.BasicBlock) *iterInfo {
	for _, in := range b.Instrs {
		if nx, ok := in.(*ssa.Next); ok {
			return fr.iters[nx.Iter]
		}
	}
	return nil
}

func (fr *Frame) enterLoop(b *ssa.BasicBlock, li *loopInfo, st *State, ins []*State, conds []string, predIdx []int) {
	u := fr.u
	var phis []*ssa.Phi
	for _, in := range b.Instrs {
		if phi, ok := in.(*ssa.Phi); ok {
			phis = append(phis, phi)
		} else {
			break
		}
	}
	// entry values of phis
	entryVals := map[*ssa.Phi]Val{}
	for _, phi := range phis {
		var ts []string
		for k, pi := range predIdx {
			ts = append(ts, fr.val(ins[k], phi.Edges[pi]).T)
		}
		term := ts[len(ts)-1]
		for i := len(ts) - 2; i >= 0; i-- {
			term = ite(conds[i], ts[i], term)
		}
		entryVals[phi] = Val{u.define(fr.tag+"_"+phi.Name()+"_in", u.sortOf(phi.Type()), term), phi.Type(), ""}
	}
	invs := fr.loopInvariants(b)
	ord := fr.ordinals[b.Index]
	if it := fr.loopIter(b); it != nil {
		if fr.iterByOrd == nil {
			fr.iterByOrd = map[int]*iterInfo{}
		}
		fr.iterByOrd[ord] = it
	}
	// inv-entry
	if len(invs) > 0 && !u.discovery {
		env := fr.headerEnv(b, entryVals)
		for _, cl := range invs {
			t, err := u.specBool(cl.Expr, &specCtx{fr: fr, cur: st, old: u.entry, env: env, local: fr.localAt(b, li), iter: fr.loopIter(b)})
			if err != nil {
				u.failed = fmt.Sprintf("%s:%d: %v", cl.File, cl.Line, err)
				return
			}
			u.check(fr, st, "inv-entry", fmt.Sprintf("loop%d.%s", ord, clauseKey(cl)), t, "loop invariant holds on entry: "+cl.Text, b.Instrs[0].Pos(), cl.Props)
		}
	}
	// havoc
	key := fmt.Sprintf("%s#%d", u.eng.funcKey(fr.fn), li.header)
	ws := u.loopWrites[key]
	frameNames := fr.loopFrameNames(ws)
	var allowed map[string][]string
	if len(frameNames) > 0 {
		var ok bool
		if allowed, ok = u.modAllowed(fr); !ok {
			frameNames = nil
		}
	}
	for _, k := range frameNames {
		if phi := u.frameFormula(st, k, allowed); phi != "" {
			u.check(fr, st, "frame", fmt.Sprintf("loop%d.entry.%s", ord, k), phi, "only locations named in modifies changed before the loop: "+k, b.Instrs[0].Pos(), u.spec.Props)
		}
	}
	if ws["*"] {
		u.havocAll(st, "loop body of "+fr.fn.Name()+" calls code with unknown effects")
	} else {
		names := make([]string, 0, len(ws))
		for k := range ws {
			names = append(names, k)
		}
		sort.Strings(names)
		for _, k := range names {
			u.havocName(st, k)
		}
	}
	if fr.headerPhis == nil {
		fr.headerPhis = map[int]map[*ssa.Phi]Val{}
	}
	hv := map[*ssa.Phi]Val{}
	for _, phi := range phis {
		v := u.freshVal(st, fr.tag+"_"+phi.Name(), phi.Type())
		fr.vals[phi] = v
		hv[phi] = v
		// automatic monotonicity invariant: phi = phi + c on every back edge
		fr.autoInv(st, b, li, phi, entryVals[phi], v)
	}
	for _, k := range frameNames {
		if phi := u.frameFormula(st, k, allowed); phi != "" {
			u.assume(st, phi)
		}
	}
	if it := fr.loopIter(b); it != nil && !it.isStr && !u.discovery {
		sn, ok := st.heap[it.seen]
		if !ok {
			sn = u.hget(st, it.seen, u.heapSort[it.seen])
		}
		u.assume(st, fmt.Sprintf("(forall ((kk %s)) (=> (select %s kk) (select %s kk)))", it.kSort, sn, it.dom0))
	}
	if len(invs) > 0 && !u.discovery {
		env := fr.headerEnv(b, hv)
		for _, cl := range invs {
			t, err := u.specBool(cl.Expr, &specCtx{fr: fr, cur: st, old: u.entry, env: env, local: fr.localAt(b, li), iter: fr.loopIter(b)})
			if err != nil {
				u.failed = fmt.Sprintf("%s:%d: %v", cl.File, cl.Line, err)
				return
			}
			u.assume(st, t)
		}
	}
	if fr.headerState == nil {
		fr.headerState = map[int]*State{}
	}
	fr.headerState[b.Index] = st.clone()
	fr.headerPhis[b.Index] = hv
}

// autoInv assumes lo <= phi (or phi <= hi) when every back edge adds a positive (negative) constant.
func (fr *Frame) loopIterations(b *ssa.BasicBlock) []*Clause {
	if fr.spec == nil {
		return nil
	}
	if ls, ok := fr.spec.Loops[fr.ordinals[b.Index]]; ok {
		return ls.Iterations
	}
	return nil
}

func (fr *Frame) autoInv(st *State, b *ssa.BasicBlock, li *loopInfo, phi *ssa.Phi, entry, cur Val) {
	if fr.u.sortOf(phi.Type()) != sInt {
		return
	}
	dir := 0
	for pi, p := range b.Preds {
		if !b.Dominates(p) {
			continue
		}
		bo, ok := phi.Edges[pi].(*ssa.BinOp)
		if !ok || bo.X != ssa.Value(phi) {
			return
		}
		c, ok := bo.Y.(*ssa.Const)
		if !ok || c.Value == nil || c.Value.Kind() != constant.Int {
			return
		}
		n, _ := constant.Int64Val(c.Value)
		d := 0
		switch {
		case bo.Op == token.ADD && n > 0, bo.Op == token.SUB && n < 0:
			d = 1
		case bo.Op == token.ADD && n < 0, bo.Op == token.SUB && n > 0:
			d = -1
		default:
			return
		}
		if dir != 0 && dir != d {
			return
		}
		dir = d
	}
	if dir > 0 {
		fr.u.assume(st, sx(">=", cur.T, entry.T))
	} else if dir < 0 {
		fr.u.assume(st, sx("<=", cur.T, entry.T))
	}
}

func clauseKey(cl *Clause) string {
	if cl.Label != "" {
		return cl.Label
	}
	return hash8(cl.Text)
}

// backEdge checks invariants of header h when control returns to it from block p in state st.
func (fr *Frame) backEdge(p, h *ssa.BasicBlock, st *State, cond string) {
	u := fr.u
	invs := fr.loopInvariants(h)
	if u.discovery {
		return
	}
	if fn := fr.loopFrameNames(u.loopWrites[fmt.Sprintf("%s#%d", u.eng.funcKey(fr.fn), h.Index)]); len(fn) > 0 {
		if allowed, ok := u.modAllowed(fr); ok {
			s3 := st.clone()
			s3.pc = and(st.pc, cond)
			for _, k := range fn {
				if phi := u.frameFormula(s3, k, allowed); phi != "" {
					u.check(fr, s3, "frame", fmt.Sprintf("loop%d.%s", fr.ordinals[h.Index], k), phi, "loop body changes only locations named in modifies: "+k, p.Instrs[len(p.Instrs)-1].Pos(), u.spec.Props)
				}
			}
		}
	}
	if its := fr.loopIterations(h); len(its) > 0 && fr.headerState[h.Index] != nil {
		s4 := st.clone()
		s4.pc = and(st.pc, cond)
		henv := fr.headerEnv(h, fr.headerPhis[h.Index])
		// at the end of the iteration the loop-carried variables hold the values flowing along this back edge
		endPhis := map[*ssa.Phi]Val{}
		for i, q := range h.Preds {
			if q != p {
				continue
			}
			for _, in := range h.Instrs {
				phi, ok := in.(*ssa.Phi)
				if !ok {
					break
				}
				endPhis[phi] = fr.val(s4, phi.Edges[i])
			}
		}
		env := fr.headerEnv(h, endPhis)
		for _, cl := range its {
			t, err := u.specBool(cl.Expr, &specCtx{fr: fr, cur: s4, old: u.entry, env: env, henv: henv, header: fr.headerState[h.Index], local: fr.localAt(h, findLoops(fr.fn)[h.Index]), iter: fr.loopIter(h)})
			if err != nil {
				u.failed = fmt.Sprintf("%s:%d: %v", cl.File, cl.Line, err)
				return
			}
			u.check(fr, s4, "iteration", fmt.Sprintf("loop%d.%s", fr.ordinals[h.Index], clauseKey(cl)), t, "holds at the end of every iteration: "+cl.Text, p.Instrs[len(p.Instrs)-1].Pos(), cl.Props)
		}
	}
	if len(invs) == 0 {
		return
	}
	pi := -1
	for i, q := range h.Preds {
		if q == p {
			pi = i
		}
	}
	s2 := st.clone()
	s2.pc = and(st.pc, cond)
	pv := map[*ssa.Phi]Val{}
	for _, in := range h.Instrs {
		phi, ok := in.(*ssa.Phi)
		if !ok {
			break
		}
		pv[phi] = fr.val(s2, phi.Edges[pi])
	}
	env := fr.headerEnv(h, pv)
	ord := fr.ordinals[h.Index]
	for _, cl := range invs {
		t, err := u.specBool(cl.Expr, &specCtx{fr: fr, cur: s2, old: u.entry, env: env, local: fr.localAt(h, findLoops(fr.fn)[h.Index]), iter: fr.loopIter(h)})
		if err != nil {
			u.failed = fmt.Sprintf("%s:%d: %v", cl.File, cl.Line, err)
			return
		}
		u.check(fr, s2, "inv-preserve", fmt.Sprintf("loop%d.%s", ord, clauseKey(cl)), t, "loop invariant preserved: "+cl.Text, p.Instrs[len(p.Instrs)-1].Pos(), cl.Props)
	}
}

func (fr *Frame) execBlock(b *ssa.BasicBlock, st *State, loops map[int]*loopInfo) {
	u := fr.u
	for _, in := range b.Instrs {
		if u.failed != "" {
			return
		}
		u.insts++
		switch x := in.(type) {
		case *ssa.Phi:
			continue
		case *ssa.If:
			c := fr.val(st, x.Cond).T
			fr.edgeC[[2]int{b.Index, b.Succs[0].Index}] = c
			if b.Succs[0] == b.Succs[1] {
				fr.edgeC[[2]int{b.Index, b.Succs[0].Index}] = "true"
			} else {
				fr.edgeC[[2]int{b.Index, b.Succs[1].Index}] = not(c)
			}
		case *ssa.Jump:
		case *ssa.Return:
			var rs []Val
			for _, r := range x.Results {
				rs = append(rs, fr.val(st, r))
			}
			fr.rets = append(fr.rets, retInfo{st: st, vals: rs, pos: x.Pos(), in: x})
		case *ssa.Panic:
			u.check(fr, st, "panic", "", "false", "explicit panic is unreachable", x.Pos(), nil)
			st.dead = true
		default:
			fr.execInstr(st, in)
		}
	}
	fr.out[b.Index] = st
	for _, s := range b.Succs {
		if s.Dominates(b) {
			c := "true"
			if ec, ok := fr.edgeC[[2]int{b.Index, s.Index}]; ok {
				c = ec
			}
			fr.backEdge(b, s, st, c)
		}
	}
}

// ---------- instructions ----------

func (fr *Frame) set(v ssa.Value, t string) {
	fr.vals[v] = Val{fr.u.define(fr.tag+"_"+v.Name(), fr.u.sortOf(v.Type()), t), v.Type(), ""}
}

func (fr *Frame) execInstr(st *State, in ssa.Instruction) {
	u := fr.u
	switch x := in.(type) {
	case *ssa.DebugRef:
	case *ssa.Alloc:
		et := x.Type().(*types.Pointer).Elem()
		if _, isArr := et.Underlying().(*types.Array); !isArr && privateAlloc(x) {
			// a frame-local variable whose address never escapes: its own variable, untouched by callees
			name := fmt.Sprintf("%%loc_%s_%s", fr.tag, x.Name())
			srt := u.sortOf(et)
			u.heapSort[name] = srt
			st.heap[name] = u.zero(et)
			for _, s := range u.sinks {
				s[name] = true
			}
			fr.addrs[x] = &Addr{heap: name, hsort: srt, rootTy: et, ty: et}
			break
		}
		r := u.alloc(st)
		fr.vals[x] = Val{r, x.Type(), ""}
		a := fr.addrOfRef(r, et)
		fr.storeTo(st, a, Val{u.zero(et), et, ""})
	case *ssa.FieldAddr:
		base := fr.addrOf(st, x.X)
		if base.heap == "" {
			// pointer to struct
			fr.nilCheck(st, base.base, x, "field access through nil pointer")
			hn, hs, ft := fieldHeap(u, base.ty, x.Field)
			fr.addrs[x] = &Addr{heap: hn, hsort: hs, idx: []string{base.base}, rootTy: ft, ty: ft}
		} else {
			si := u.reg.structs[u.reg.structSort(base.ty)]
			ft := si.st.Field(x.Field).Type()
			np := append(append([]int{}, base.path...), x.Field)
			fr.addrs[x] = &Addr{heap: base.heap, hsort: base.hsort, idx: base.idx, rootTy: base.rootTy, path: np, ty: ft}
		}
	case *ssa.Field:
		v := fr.val(st, x.X)
		si := u.reg.structs[u.reg.structSort(v.Ty)]
		fr.set(x, sx(si.sel(x.Field), v.T))
	case *ssa.IndexAddr:
		idx := fr.val(st, x.Index).T
		switch t := x.X.Type().Underlying().(type) {
		case *types.Slice:
			s := fr.val(st, x.X)
			fr.boundsCheck(st, idx, sx("s_len", s.T), x, "index out of range")
			es := u.sortOf(t.Elem())
			fr.addrs[x] = &Addr{heap: u.elemHeapName(t.Elem()), hsort: "(Array Int (Array Int " + es + "))", idx: []string{sx("s_arr", s.T), u.sidx(s.T, idx)}, rootTy: t.Elem(), ty: t.Elem()}
		case *types.Pointer:
			at := t.Elem().Underlying().(*types.Array)
			base := fr.addrOf(st, x.X)
			fr.boundsCheck(st, idx, fmt.Sprint(at.Len()), x, "array index out of range")
			es := u.sortOf(at.Elem())
			if base.heap == "" {
				fr.addrs[x] = &Addr{heap: u.elemHeapName(at.Elem()), hsort: "(Array Int (Array Int " + es + "))", idx: []string{base.base, idx}, rootTy: at.Elem(), ty: at.Elem()}
			} else {
				u.note("array nested in a struct: element address abstracted")
				r := u.fresh("arrelem", sInt)
				fr.addrs[x] = fr.addrOfRef(r, at.Elem())
			}
		default:
			u.note("IndexAddr on unsupported type")
			fr.addrs[x] = fr.addrOfRef(u.fresh("ia", sInt), x.Type().(*types.Pointer).Elem())
		}
	case *ssa.Index:
		idx := fr.val(st, x.Index).T
		v := fr.val(st, x.X)
		switch t := v.Ty.Underlying().(type) {
		case *types.Basic: // string
			fr.boundsCheck(st, idx, sx("slen", v.T), x, "string index out of range")
			fr.set(x, sx("sat", v.T, idx))
			u.assume(st, and(sx("<=", "0", fr.vals[x].T), sx("<=", fr.vals[x].T, "255")))
		case *types.Array:
			fr.boundsCheck(st, idx, fmt.Sprint(t.Len()), x, "array index out of range")
			fr.set(x, sel(v.T, idx))
		default:
			fr.vals[x] = u.freshVal(st, "index", x.Type())
		}
	case *ssa.UnOp:
		fr.execUnOp(st, x)
	case *ssa.BinOp:
		fr.execBinOp(st, x)
	case *ssa.Store:
		a := fr.addrOf(st, x.Addr)
		if a.heap == "" || strings.HasPrefix(a.heap, "Cell_") {
			ref := a.base
			if a.heap != "" {
				ref = a.idx[0]
			}
			fr.nilCheck(st, ref, x, "store through nil pointer")
		}
		fr.storeTo(st, a, fr.val(st, x.Val))
	case *ssa.MakeInterface:
		fr.set(x, u.box(st, fr.val(st, x.X)))
		if ci, ok := fr.clos[x.X]; ok {
			fr.clos[x] = ci
		}
	case *ssa.ChangeInterface:
		fr.vals[x] = Val{fr.val(st, x.X).T, x.Type(), ""}
	case *ssa.ChangeType:
		fr.vals[x] = Val{fr.val(st, x.X).T, x.Type(), ""}
		if ci, ok := fr.clos[x.X]; ok {
			fr.clos[x] = ci
		}
	case *ssa.Convert:
		fr.execConvert(st, x)
	case *ssa.MultiConvert:
		fr.vals[x] = u.freshVal(st, "mconv", x.Type())
		u.note("MultiConvert abstracted")
	case *ssa.TypeAssert:
		fr.execTypeAssert(st, x)
	case *ssa.Extract:
		tv := fr.tuples[x.Tuple]
		if tv == nil || x.Index >= len(tv) {
			fr.vals[x] = u.freshVal(st, "extract", x.Type())
		} else {
			fr.vals[x] = Val{tv[x.Index].T, x.Type(), ""}
			if cv, ok := x.Tuple.(*ssa.Call); ok {
				_ = cv
			}
		}
	case *ssa.MakeSlice:
		n := fr.val(st, x.Len).T
		c := fr.val(st, x.Cap).T
		u.check(fr, st, "bounds", "", and(sx("<=", "0", n), sx("<=", n, c)), "make: len out of range", x.Pos(), nil)
		et := x.Type().Underlying().(*types.Slice).Elem()
		es := u.sortOf(et)
		arr := u.alloc(st)
		hn, hs := u.elemHeapName(et), "(Array Int (Array Int "+es+"))"
		u.hset(st, hn, hs, store(u.hget(st, hn, hs), arr, u.constArray(sInt, es, u.zero(et))))
		fr.set(x, sx("mkslice", arr, "0", n, c))
	case *ssa.MakeMap:
		mt := x.Type().Underlying().(*types.Map)
		r := u.alloc(st)
		dn, ds, vn, vs, cn := u.mapHeaps(mt)
		ks := u.sortOf(mt.Key())
		u.hset(st, dn, ds, store(u.hget(st, dn, ds), r, fmt.Sprintf("((as const (Array %s Bool)) false)", ks)))
		u.hset(st, vn, vs, store(u.hget(st, vn, vs), r, u.constArray(ks, u.sortOf(mt.Elem()), u.zero(mt.Elem()))))
		u.hset(st, cn, "(Array Int Int)", store(u.hget(st, cn, "(Array Int Int)"), r, "0"))
		fr.vals[x] = Val{r, x.Type(), ""}
	case *ssa.MakeChan:
		fr.vals[x] = Val{u.alloc(st), x.Type(), ""}
	case *ssa.MakeClosure:
		r := u.alloc(st)
		fr.vals[x] = Val{r, x.Type(), ""}
		ci := &closInfo{fn: x.Fn.(*ssa.Function)}
		for _, b := range x.Bindings {
			ci.bindings = append(ci.bindings, fr.val(st, b))
		}
		fr.clos[x] = ci
	case *ssa.Lookup:
		fr.execLookup(st, x)
	case *ssa.MapUpdate:
		m := fr.val(st, x.Map)
		mt := m.Ty.Underlying().(*types.Map)
		u.check(fr, st, "nilmap", "", not(eq(m.T, "0")), "assignment to entry in nil map", x.Pos(), nil)
		u.mapStore(st, mt, m.T, fr.val(st, x.Key).T, fr.val(st, x.Value).T)
	case *ssa.Slice:
		fr.execSlice(st, x)
	case *ssa.SliceToArrayPointer:
		fr.vals[x] = u.freshVal(st, "s2a", x.Type())
		u.note("SliceToArrayPointer abstracted")
	case *ssa.Range:
		fr.execRange(st, x)
	case *ssa.Next:
		fr.execNext(st, x)
	case *ssa.Call:
		rs := fr.execCall(st, &x.Call, x, x.Pos())
		fr.bindResults(st, x, rs)
	case *ssa.Defer:
		name := fmt.Sprintf("%%defer_%s_%d", fr.tag, len(fr.defers))
		fr.defers = append(fr.defers, x)
		u.heapSort[name] = sBool
		st.heap[name] = "true"
		for _, s := range u.sinks {
			s[name] = true
		}
	case *ssa.RunDefers:
		for i := len(fr.defers) - 1; i >= 0; i-- {
			d := fr.defers[i]
			name := fmt.Sprintf("%%defer_%s_%d", fr.tag, i)
			flag, ok := st.heap[name]
			if !ok || flag == "false" {
				continue
			}
			if flag == "true" {
				fr.execCall(st, &d.Call, d, d.Pos())
				continue
			}
			// conditional defer: run it on a branch state and merge
			s2 := st.clone()
			s2.pc = u.define("pc_defer", sBool, and(st.pc, flag))
			fr.execCall(s2, &d.Call, d, d.Pos())
			s1 := st.clone()
			s1.pc = u.define("pc_nodefer", sBool, and(st.pc, not(flag)))
			m := fr.mergeStates(fr.curBlk, []*State{s2, s1}, []string{s2.pc, s1.pc})
			st.heap, st.epoch = m.heap, m.epoch
		}
	case *ssa.Go:
		// precondition of the spawned function is checked; its effects are asynchronous (assumption: sequential reasoning)
		u.note("go statement: spawned goroutine's effects are not interleaved (sequential assumption)")
		for _, a := range x.Call.Args {
			fr.val(st, a)
		}
		// ownership of what the goroutine shares with its spawner: a variable the closure captures by reference must not be
		// overwritten by the loop that spawns it (each iteration would change what the earlier goroutines read)
		if mc, ok := x.Call.Value.(*ssa.MakeClosure); ok && fr.parent == nil {
			bad := ""
			for _, li := range findLoops(fr.fn) {
				if !li.blocks[x.Block().Index] {
					continue
				}
				// li is a loop around the go statement
				for _, b := range mc.Bindings {
					al, ok := b.(*ssa.Alloc)
					if !ok || al.Block() == nil || li.blocks[al.Block().Index] {
						continue
					}
					if refs := al.Referrers(); refs != nil {
						for _, r := range *refs {
							if stI, ok := r.(*ssa.Store); ok && stI.Addr == ssa.Value(al) && li.blocks[stI.Block().Index] {
								bad = al.Comment
								if bad == "" {
									bad = al.Name()
								}
							}
						}
					}
				}
			}
			phi := "(= 0 0)"
			desc := "variables a spawned goroutine captures by reference are not overwritten by the spawning loop"
			if bad != "" {
				phi = "false"
				desc += ": " + bad + " is declared outside the loop and assigned inside it"
			}
			// the rule is syntactic (every path through the loop overwrites the variable): the obligation does not depend on
			// the path condition
			if o := u.check(fr, st, "go-capture", "", phi, desc, x.Pos(), nil); o != nil && bad != "" {
				o.goal, o.bodyLen = "true", 0
			}
		}
	case *ssa.Send:
		// a send enqueues: the ghost records, per channel object, how many values were sent and the last one. Blocking (and
		// what other goroutines do meanwhile) is outside the sequential model.
		ch := fr.val(st, x.Chan).T
		fr.nilCheck(st, ch, x, "send on nil channel")
		cnt := u.hget(st, "$chansent", "(Array Int Int)")
		u.hset(st, "$chansent", "(Array Int Int)", store(cnt, ch, sx("+", sel(cnt, ch), "1")))
		last := u.hget(st, "$chanlast", "(Array Int Any)")
		u.hset(st, "$chanlast", "(Array Int Any)", store(last, ch, u.box(st, fr.val(st, x.X))))
		u.note("channel send modelled as an enqueue on the ghost queue ($chansent / $chanlast); blocking not modelled")
	case *ssa.Select:
		u.havocAll(st, "select")
		tv := []Val{}
		tt := x.Type().(*types.Tuple)
		for i := 0; i < tt.Len(); i++ {
			tv = append(tv, u.freshVal(st, "sel", tt.At(i).Type()))
		}
		fr.tuples[x] = tv
	default:
		u.note(fmt.Sprintf("unsupported instruction %T", in))
		if v, ok := in.(ssa.Value); ok {
			fr.vals[v] = u.freshVal(st, "unsup", v.Type())
		}
		u.havocAll(st, fmt.Sprintf("unsupported instruction %T", in))
	}
}

func (fr *Frame) bindResults(st *State, x *ssa.Call, rs []Val) {
	sig := x.Call.Signature()
	n := sig.Results().Len()
	switch {
	case n == 0:
	case n == 1:
		if len(rs) >= 1 {
			fr.vals[x] = Val{fr.u.define(fr.tag+"_"+x.Name(), fr.u.sortOf(x.Type()), rs[0].T), x.Type(), ""}
		} else {
			fr.vals[x] = fr.u.freshVal(st, "call", x.Type())
		}
	default:
		if len(rs) == n {
			fr.tuples[x] = rs
		} else {
			var tv []Val
			for i := 0; i < n; i++ {
				tv = append(tv, fr.u.freshVal(st, "call", sig.Results().At(i).Type()))
			}
			fr.tuples[x] = tv
		}
	}
}

func (fr *Frame) nilCheck(st *State, ref string, in ssa.Instruction, desc string) {
	fr.u.check(fr, st, "nilptr", "", not(eq(ref, "0")), desc, in.Pos(), nil)
}

func (fr *Frame) boundsCheck(st *State, idx, n string, in ssa.Instruction, desc string) {
	fr.u.check(fr, st, "bounds", "", and(sx("<=", "0", idx), sx("<", idx, n)), desc, in.Pos(), nil)
}

func (u *Unit) mapHeaps(mt *types.Map) (dn, ds, vn, vs, cn string) {
	ks, vs0 := u.sortOf(mt.Key()), u.sortOf(mt.Elem())
	tag := u.heapTag(mt.Key()) + "_" + u.heapTag(mt.Elem())
	vn = "Mval_" + tag
	if _, ok := u.heapInfo[vn]; !ok {
		u.heapInfo[vn] = heapInfo{levels: 2, keySort: ks, elemTy: mt.Elem()}
		u.mapTags[tag] = mt
		u.heapSort["Mdom_"+tag] = fmt.Sprintf("(Array Int (Array %s Bool))", ks)
		u.heapSort["Mval_"+tag] = fmt.Sprintf("(Array Int (Array %s %s))", ks, vs0)
		u.heapSort["Mcard_"+tag] = "(Array Int Int)"
	}
	return "Mdom_" + tag, fmt.Sprintf("(Array Int (Array %s Bool))", ks), vn, fmt.Sprintf("(Array Int (Array %s %s))", ks, vs0), "Mcard_" + tag
}

type heapInfo struct {
	levels  int
	keySort string
	elemTy  types.Type
}

// heapTag names the heap component that stores values of Go type t. Components are per Go type (Burstall-Bornat),
// so objects of different types can never alias even though references are plain integers.
func (u *Unit) heapTag(t types.Type) string {
	s := canonType(t)
	tag := sanitize(s)
	if len(tag) > 40 {
		tag = tag[:28] + "_" + hash8(s)
	}
	return tag
}

// canonType prints a type so that identical types (aliases resolved, any = interface{}) print identically.
func canonType(t types.Type) string {
	t = types.Unalias(t)
	switch x := t.(type) {
	case *types.Basic:
		switch x.Kind() {
		case types.Uint8:
			return "uint8"
		case types.Int32:
			return "int32"
		}
		return x.Name()
	case *types.Named:
		n := x.Obj().Name()
		if x.Obj().Pkg() != nil {
			n = x.Obj().Pkg().Name() + "." + n
		}
		if ta := x.TypeArgs(); ta != nil && ta.Len() > 0 {
			var as []string
			for i := 0; i < ta.Len(); i++ {
				as = append(as, canonType(ta.At(i)))
			}
			n += "[" + strings.Join(as, ",") + "]"
		}
		return n
	case *types.Pointer:
		return "*" + canonType(x.Elem())
	case *types.Slice:
		return "[]" + canonType(x.Elem())
	case *types.Array:
		return fmt.Sprintf("[%d]%s", x.Len(), canonType(x.Elem()))
	case *types.Map:
		return "map[" + canonType(x.Key()) + "]" + canonType(x.Elem())
	case *types.Chan:
		return "chan " + canonType(x.Elem())
	case *types.Interface:
		if x.NumMethods() == 0 {
			return "any"
		}
		var ms []string
		for i := 0; i < x.NumMethods(); i++ {
			ms = append(ms, x.Method(i).Name())
		}
		return "interface{" + strings.Join(ms, ";") + "}"
	case *types.Struct:
		var fs []string
		for i := 0; i < x.NumFields(); i++ {
			fs = append(fs, x.Field(i).Name()+" "+canonType(x.Field(i).Type()))
		}
		return "struct{" + strings.Join(fs, ";") + "}"
	case *types.Signature:
		var ps, rs []string
		for i := 0; i < x.Params().Len(); i++ {
			ps = append(ps, canonType(x.Params().At(i).Type()))
		}
		for i := 0; i < x.Results().Len(); i++ {
			rs = append(rs, canonType(x.Results().At(i).Type()))
		}
		return "func(" + strings.Join(ps, ",") + ")(" + strings.Join(rs, ",") + ")"
	}
	return types.TypeString(t, shortQual)
}

func (u *Unit) elemHeapName(et types.Type) string {
	n := "E_" + u.heapTag(et)
	if _, ok := u.heapInfo[n]; !ok {
		u.heapInfo[n] = heapInfo{levels: 2, keySort: sInt, elemTy: et}
	}
	return n
}

func (u *Unit) cellHeapName(et types.Type) string {
	n := "Cell_" + u.heapTag(et)
	if _, ok := u.heapInfo[n]; !ok {
		u.heapInfo[n] = heapInfo{levels: 1, elemTy: et}
	}
	return n
}

// wfVal: well-formedness of a stored value of type t with respect to allocation frontier a.
func (u *Unit) wfVal(v string, t types.Type, a string) string {
	if t == nil || isTimeType(t) {
		return "true"
	}
	if stt, ok := t.Underlying().(*types.Struct); ok {
		// struct values stored in maps / slices: their reference-typed fields are allocated too (one level)
		si := u.reg.structs[u.reg.structSort(t)]
		var fs []string
		for i := 0; i < stt.NumFields(); i++ {
			ft := stt.Field(i).Type()
			if _, nested := ft.Underlying().(*types.Struct); nested {
				continue
			}
			fs = append(fs, u.wfVal(sx(si.sel(i), v), ft, a))
		}
		return and(fs...)
	}
	switch t.Underlying().(type) {
	case *types.Pointer, *types.Map, *types.Chan:
		return and(sx("<=", "0", v), sx("<", v, a))
	case *types.Slice:
		return and(sx("<=", "0", sx("s_arr", v)), sx("<", sx("s_arr", v), a), sx("<=", "0", sx("s_off", v)), sx("<=", "0", sx("s_len", v)),
			sx("<=", sx("s_len", v), sx("s_cap", v)), implies(eq(sx("s_arr", v), "0"), eq(sx("s_cap", v), "0")))
	case *types.Interface:
		return and(implies(sx("(_ is A_ref)", v), and(sx("<=", "0", sx("a_ref", v)), sx("<", sx("a_ref", v), a))),
			implies(sx("(_ is A_slice)", v), and(sx("<=", "0", sx("s_arr", sx("a_slice", v))), sx("<", sx("s_arr", sx("a_slice", v)), a),
				sx("<=", "0", sx("s_off", sx("a_slice", v))), sx("<=", "0", sx("s_len", sx("a_slice", v))), sx("<=", sx("s_len", sx("a_slice", v)), sx("s_cap", sx("a_slice", v))))))
	}
	return "true"
}

// wfHeap emits the axiom that every value stored in heap constant c (named name) is well formed w.r.t. frontier a.
func (u *Unit) wfHeap(name, c, a string) {
	hi, ok := u.heapInfo[name]
	if !ok || u.discovery {
		return
	}
	switch hi.levels {
	case 0:
		u.assumeGlobal(u.wfVal(c, hi.elemTy, a))
	case 1:
		if w := u.wfVal("(select "+c+" r)", hi.elemTy, a); w != "true" {
			u.assumeGlobal(fmt.Sprintf("(forall ((r Int)) (! (=> (and (<= 0 r) (< r %s)) %s) :pattern ((select %s r))))", a, w, c))
		}
	case 2:
		if w := u.wfVal("(select (select "+c+" r) k)", hi.elemTy, a); w != "true" {
			u.assumeGlobal(fmt.Sprintf("(forall ((r Int) (k %s)) (! (=> (and (<= 0 r) (< r %s)) %s) :pattern ((select (select %s r) k))))", hi.keySort, a, w, c))
		}
	}
}

func (u *Unit) mapStore(st *State, mt *types.Map, m, k, v string) {
	dn, ds, vn, vs, cn := u.mapHeaps(mt)
	u.markWrite(dn, m)
	u.markWrite(vn, m)
	u.markWrite(cn, m)
	d := u.hget(st, dn, ds)
	c := u.hget(st, cn, "(Array Int Int)")
	had := sel(sel(d, m), k)
	u.hset(st, cn, "(Array Int Int)", store(c, m, ite(had, sel(c, m), sx("+", sel(c, m), "1"))))
	u.hset(st, dn, ds, store(d, m, store(sel(d, m), k, "true")))
	vh := u.hget(st, vn, vs)
	u.hset(st, vn, vs, store(vh, m, store(sel(vh, m), k, v)))
}

func (u *Unit) mapDelete(st *State, mt *types.Map, m, k string) {
	dn, ds, vn, vs, cn := u.mapHeaps(mt)
	u.markWrite(dn, m)
	u.markWrite(vn, m)
	u.markWrite(cn, m)
	d := u.hget(st, dn, ds)
	c := u.hget(st, cn, "(Array Int Int)")
	had := sel(sel(d, m), k)
	u.hset(st, cn, "(Array Int Int)", store(c, m, ite(had, sx("-", sel(c, m), "1"), sel(c, m))))
	u.hset(st, dn, ds, store(d, m, store(sel(d, m), k, "false")))
	vh := u.hget(st, vn, vs)
	u.hset(st, vn, vs, store(vh, m, store(sel(vh, m), k, u.zero(mt.Elem()))))
}

func (u *Unit) mapHas(st *State, mt *types.Map, m, k string) string {
	dn, ds, _, _, _ := u.mapHeaps(mt)
	u.mapHeapsDeclared(st, mt)
	return sel(sel(u.hget(st, dn, ds), m), k)
}

func (u *Unit) mapGet(st *State, mt *types.Map, m, k string) string {
	_, _, vn, vs, _ := u.mapHeaps(mt)
	// absent keys (and the nil map, reference 0) hold the zero value: an invariant of the map heaps (mapWF)
	u.mapHeapsDeclared(st, mt)
	return sel(sel(u.hget(st, vn, vs), m), k)
}

// mapHeapsDeclared makes sure the three heap components of a map type exist in st (materialising them emits mapWF).
func (u *Unit) mapHeapsDeclared(st *State, mt *types.Map) {
	dn, ds, vn, vs, cn := u.mapHeaps(mt)
	u.hget(st, dn, ds)
	u.hget(st, vn, vs)
	u.hget(st, cn, "(Array Int Int)")
}

// mapWF: relation between the domain, value and cardinality components of a map heap: values outside the domain are
// zero, the nil map (reference 0) is empty, cardinalities are non-negative and zero exactly for empty domains.
func (u *Unit) mapWF(tag, d, v, c, ks, zero string) {
	if u.discovery {
		return
	}
	u.assumeGlobal(fmt.Sprintf("(forall ((r Int) (k %s)) (! (=> (not (select (select %s r) k)) (= (select (select %s r) k) %s)) :pattern ((select (select %s r) k))))", ks, d, v, zero, v))
	u.assumeGlobal(fmt.Sprintf("(forall ((k %s)) (! (not (select (select %s 0) k)) :pattern ((select (select %s 0) k))))", ks, d, d))
	u.assumeGlobal(fmt.Sprintf("(forall ((r Int)) (! (>= (select %s r) 0) :pattern ((select %s r))))", c, c))
	u.assumeGlobal(fmt.Sprintf("(= (select %s 0) 0)", c))
	u.assumeGlobal(fmt.Sprintf("(forall ((r Int) (k %s)) (! (=> (select (select %s r) k) (> (select %s r) 0)) :pattern ((select (select %s r) k))))", ks, d, c, d))
}

func (u *Unit) mapLen(st *State, mt *types.Map, m string) string {
	_, _, _, _, cn := u.mapHeaps(mt)
	u.mapHeapsDeclared(st, mt)
	return sel(u.hget(st, cn, "(Array Int Int)"), m)
}

func (fr *Frame) execLookup(st *State, x *ssa.Lookup) {
	u := fr.u
	m := fr.val(st, x.X)
	k := fr.val(st, x.Index)
	mt, ok := m.Ty.Underlying().(*types.Map)
	if !ok { // string index
		fr.boundsCheck(st, k.T, sx("slen", m.T), x, "string index out of range")
		fr.set(x, sx("sat", m.T, k.T))
		return
	}
	v := u.define(fr.tag+"_"+x.Name(), u.sortOf(mt.Elem()), u.mapGet(st, mt, m.T, k.T))
	u.assume(st, u.facts(st, v, mt.Elem()))
	if x.CommaOk {
		fr.tuples[x] = []Val{{v, mt.Elem(), ""}, {u.mapHas(st, mt, m.T, k.T), types.Typ[types.Bool], ""}}
	} else {
		fr.vals[x] = Val{v, x.Type(), ""}
	}
}

func (fr *Frame) execSlice(st *State, x *ssa.Slice) {
	u := fr.u
	lo := "0"
	if x.Low != nil {
		lo = fr.val(st, x.Low).T
	}
	switch t := x.X.Type().Underlying().(type) {
	case *types.Slice:
		s := fr.val(st, x.X)
		hi := sx("s_len", s.T)
		if x.High != nil {
			hi = fr.val(st, x.High).T
		}
		mx := sx("s_cap", s.T)
		if x.Max != nil {
			mx = fr.val(st, x.Max).T
			u.check(fr, st, "bounds", "", and(sx("<=", hi, mx), sx("<=", mx, sx("s_cap", s.T))), "slice max out of range", x.Pos(), nil)
		}
		u.check(fr, st, "bounds", "", and(sx("<=", "0", lo), sx("<=", lo, hi), sx("<=", hi, sx("s_cap", s.T))), "slice bounds out of range", x.Pos(), nil)
		fr.set(x, sx("mkslice", sx("s_arr", s.T), sx("+", sx("s_off", s.T), lo), sx("-", hi, lo), sx("-", mx, lo)))
		// element i of the sub-slice is element lo+i of the original: stated with sidx terms so that quantified facts about
		// the original slice are instantiated for the sub-slice
		sub := fr.vals[x].T
		u.sidx(sub, "0")
		u.assume(st, fmt.Sprintf("(forall ((i Int)) (! (= (sidx %s i) (sidx %s (+ %s i))) :pattern ((sidx %s i))))", sub, s.T, lo, sub))
	case *types.Basic: // string
		s := fr.val(st, x.X)
		hi := sx("slen", s.T)
		if x.High != nil {
			hi = fr.val(st, x.High).T
		}
		u.check(fr, st, "bounds", "", and(sx("<=", "0", lo), sx("<=", lo, hi), sx("<=", hi, sx("slen", s.T))), "string slice bounds out of range", x.Pos(), nil)
		fr.set(x, u.substr(st, s.T, lo, hi))
	case *types.Pointer: // pointer to array
		at := t.Elem().Underlying().(*types.Array)
		base := fr.addrOf(st, x.X)
		n := fmt.Sprint(at.Len())
		hi := n
		if x.High != nil {
			hi = fr.val(st, x.High).T
		}
		u.check(fr, st, "bounds", "", and(sx("<=", "0", lo), sx("<=", lo, hi), sx("<=", hi, n)), "slice bounds out of range", x.Pos(), nil)
		ref := base.base
		if base.heap != "" {
			ref = u.fresh("arrref", sInt)
			u.note("slice of array nested in struct abstracted")
		}
		fr.set(x, sx("mkslice", ref, lo, sx("-", hi, lo), sx("-", n, lo)))
	default:
		fr.vals[x] = u.freshVal(st, "slice", x.Type())
	}
}

// substr: uninterpreted with length and character facts
func (u *Unit) substr(st *State, s, lo, hi string) string {
	u.reg.declFun("ssub", "Str Int Int", sStr)
	u.reg.axiom("(assert (forall ((s Str) (a Int) (b Int)) (! (=> (and (<= 0 a) (<= a b) (<= b (slen s))) (= (slen (ssub s a b)) (- b a))) :pattern ((ssub s a b)))))")
	u.reg.axiom("(assert (forall ((s Str) (a Int) (b Int) (i Int)) (! (=> (and (<= 0 a) (<= a b) (<= b (slen s)) (<= 0 i) (< i (- b a))) (= (sat (ssub s a b) i) (sat s (+ a i)))) :pattern ((sat (ssub s a b) i)))))")
	u.reg.axiom("(assert (forall ((s Str)) (! (= (ssub s 0 (slen s)) s) :pattern ((ssub s 0 (slen s))))))")
	return sx("ssub", s, lo, hi)
}

func (u *Unit) concat(a, b string) string {
	u.reg.declFun("sconcat", "Str Str", sStr)
	u.reg.axiom("(assert (forall ((a Str) (b Str)) (! (= (slen (sconcat a b)) (+ (slen a) (slen b))) :pattern ((sconcat a b)))))")
	u.reg.axiom("(assert (forall ((a Str) (b Str) (i Int)) (! (= (sat (sconcat a b) i) (ite (< i (slen a)) (sat a i) (sat b (- i (slen a))))) :pattern ((sat (sconcat a b) i)))))")
	e := u.reg.strLit("")
	u.reg.axiom(fmt.Sprintf("(assert (forall ((a Str)) (! (and (= (sconcat a %s) a) (= (sconcat %s a) a)) :pattern ((sconcat a %s)) :pattern ((sconcat %s a)))))", e, e, e, e))
	u.reg.axiom("(assert (forall ((a Str) (b Str) (c Str)) (! (= (sconcat (sconcat a b) c) (sconcat a (sconcat b c))) :pattern ((sconcat (sconcat a b) c)))))")
	return sx("sconcat", a, b)
}

func (fr *Frame) execUnOp(st *State, x *ssa.UnOp) {
	u := fr.u
	switch x.Op {
	case token.MUL: // load
		if fv, ok := x.X.(*ssa.FreeVar); ok {
			if pv, ok := fr.pinned[fv]; ok {
				fr.vals[x] = Val{pv.T, x.Type(), ""}
				return
			}
		}
		a := fr.addrOf(st, x.X)
		if a.heap == "" || strings.HasPrefix(a.heap, "Cell_") {
			ref := a.base
			if a.heap != "" {
				ref = a.idx[0]
			}
			if _, isAlloc := x.X.(*ssa.Alloc); !isAlloc {
				fr.nilCheck(st, ref, x, "load through nil pointer")
			}
		}
		v := fr.load(st, a)
		t := u.define(fr.tag+"_"+x.Name(), u.sortOf(x.Type()), v.T)
		fr.vals[x] = Val{t, x.Type(), ""}
		u.assume(st, u.facts(st, t, x.Type()))
	case token.NOT:
		fr.set(x, not(fr.val(st, x.X).T))
	case token.SUB:
		fr.set(x, sx("-", fr.val(st, x.X).T))
	case token.ARROW:
		u.havocAll(st, "channel receive")
		if x.CommaOk {
			fr.tuples[x] = []Val{u.freshVal(st, "recv", x.X.Type().Underlying().(*types.Chan).Elem()), u.freshVal(st, "recvok", types.Typ[types.Bool])}
		} else {
			fr.vals[x] = u.freshVal(st, "recv", x.Type())
		}
	case token.XOR:
		fr.vals[x] = u.freshVal(st, "xor", x.Type())
		u.note("bitwise complement abstracted")
	default:
		fr.vals[x] = u.freshVal(st, "unop", x.Type())
	}
}

func isUnsigned(t types.Type) bool {
	b, ok := t.Underlying().(*types.Basic)
	return ok && b.Info()&types.IsUnsigned != 0
}

func (fr *Frame) execBinOp(st *State, x *ssa.BinOp) {
	u := fr.u
	a, b := fr.val(st, x.X), fr.val(st, x.Y)
	srt := u.sortOf(x.X.Type())
	isNilConst := func(v ssa.Value) bool {
		c, ok := v.(*ssa.Const)
		return ok && c.Value == nil
	}
	switch x.Op {
	case token.EQL, token.NEQ:
		var e string
		switch {
		case srt == sSlice: // only comparison with nil is legal
			if isNilConst(x.Y) {
				e = eq(sx("s_arr", a.T), "0")
			} else {
				e = eq(sx("s_arr", b.T), "0")
			}
		case srt == sAny && u.sortOf(x.Y.Type()) != sAny:
			e = eq(a.T, u.box(st, b))
		case srt != sAny && u.sortOf(x.Y.Type()) == sAny:
			e = eq(u.box(st, a), b.T)
		default:
			e = eq(a.T, b.T)
		}
		if x.Op == token.NEQ {
			e = not(e)
		}
		fr.set(x, e)
	case token.LSS, token.LEQ, token.GTR, token.GEQ:
		op := map[token.Token]string{token.LSS: "<", token.LEQ: "<=", token.GTR: ">", token.GEQ: ">="}[x.Op]
		if srt == sStr {
			u.reg.declFun("str_lt", "Str Str", sBool)
			u.note("string ordering is uninterpreted (irreflexive, total modulo equality)")
			var e string
			switch x.Op {
			case token.LSS:
				e = sx("str_lt", a.T, b.T)
			case token.GTR:
				e = sx("str_lt", b.T, a.T)
			case token.LEQ:
				e = not(sx("str_lt", b.T, a.T))
			case token.GEQ:
				e = not(sx("str_lt", a.T, b.T))
			}
			fr.set(x, e)
			return
		}
		fr.set(x, sx(op, a.T, b.T))
	case token.ADD:
		if srt == sStr {
			fr.set(x, u.concat(a.T, b.T))
			return
		}
		fr.arith(st, x, sx("+", a.T, b.T))
	case token.SUB:
		fr.arith(st, x, sx("-", a.T, b.T))
	case token.MUL:
		if srt == sReal && !isNumLit(a.T) && !isNumLit(b.T) {
			fr.set(x, u.fmul(a.T, b.T))
			return
		}
		fr.arith(st, x, sx("*", a.T, b.T))
	case token.QUO:
		if srt == sReal {
			fr.set(x, sx("/", a.T, b.T))
			return
		}
		u.check(fr, st, "div0", "", not(eq(b.T, "0")), "integer divide by zero", x.Pos(), nil)
		fr.set(x, goDiv(a.T, b.T))
	case token.REM:
		u.check(fr, st, "div0", "", not(eq(b.T, "0")), "integer divide by zero", x.Pos(), nil)
		fr.set(x, goRem(a.T, b.T))
	case token.LAND, token.LOR:
		fr.set(x, sx(map[token.Token]string{token.LAND: "and", token.LOR: "or"}[x.Op], a.T, b.T))
	default:
		if srt == sBool {
			fr.vals[x] = u.freshVal(st, "bitop", x.Type())
			return
		}
		// shifts by constants are multiplications / divisions; other bit operations abstracted
		if c, ok := x.Y.(*ssa.Const); ok && c.Value != nil && c.Value.Kind() == constant.Int {
			n, _ := constant.Int64Val(c.Value)
			if n >= 0 && n < 63 {
				p := new(big.Int).Lsh(bigOne, uint(n)).String()
				if x.Op == token.SHL {
					fr.arith(st, x, sx("*", a.T, p))
					return
				}
				if x.Op == token.SHR && isUnsigned(x.Type()) {
					fr.set(x, sx("div", a.T, p))
					return
				}
			}
		}
		u.note("bit operation abstracted: " + x.Op.String())
		fr.vals[x] = u.freshVal(st, "bitop", x.Type())
	}
}

// arith: results of unsigned arithmetic wrap; signed arithmetic is mathematical unless the overflow class is on.
func (fr *Frame) arith(st *State, x *ssa.BinOp, t string) {
	u := fr.u
	bt, ok := x.Type().Underlying().(*types.Basic)
	if ok && bt.Info()&types.IsInteger != 0 {
		lo, hi := intRange(bt)
		if bt.Info()&types.IsUnsigned != 0 {
			fr.set(x, sx("mod", t, new(big.Int).Add(hi, bigOne).String()))
			return
		}
		if u.classes != nil && u.classes["overflow"] {
			v := u.define(fr.tag+"_"+x.Name(), sInt, t)
			u.check(fr, st, "overflow", "", and(sx("<=", bigLit(lo), v), sx("<=", v, bigLit(hi))), "signed integer overflow", x.Pos(), nil)
			fr.vals[x] = Val{v, x.Type(), ""}
			return
		}
	}
	fr.set(x, t)
}

func (fr *Frame) execConvert(st *State, x *ssa.Convert) {
	u := fr.u
	v := fr.val(st, x.X)
	from, to := x.X.Type().Underlying(), x.Type().Underlying()
	fs, ts := u.sortOf(x.X.Type()), u.sortOf(x.Type())
	switch {
	case fs == sInt && ts == sInt:
		fb, ok1 := from.(*types.Basic)
		tb, ok2 := to.(*types.Basic)
		if ok1 && ok2 && tb.Info()&types.IsInteger != 0 && fb.Info()&types.IsInteger != 0 {
			flo, fhi := intRange(fb)
			tlo, thi := intRange(tb)
			if flo.Cmp(tlo) >= 0 && fhi.Cmp(thi) <= 0 {
				fr.vals[x] = Val{v.T, x.Type(), ""}
				return
			}
			size := new(big.Int).Add(new(big.Int).Sub(thi, tlo), bigOne)
			m := sx("mod", v.T, size.String())
			if tlo.Sign() < 0 {
				fr.set(x, ite(sx(">", m, bigLit(thi)), sx("-", m, size.String()), m))
			} else {
				fr.set(x, m)
			}
			return
		}
		fr.vals[x] = Val{v.T, x.Type(), ""}
	case fs == sInt && ts == sReal:
		fr.set(x, sx("to_real", v.T))
	case fs == sReal && ts == sInt:
		// truncation toward zero
		fr.set(x, ite(sx(">=", v.T, "0.0"), sx("to_int", v.T), sx("-", sx("to_int", sx("-", v.T)))))
		u.note("float->int conversion: truncation over reals, range not modelled")
	case fs == sReal && ts == sReal, fs == sStr && ts == sStr:
		fr.vals[x] = Val{v.T, x.Type(), ""}
	case fs == sStr && ts == sSlice && !isByteSlice(x.Type()): // []rune(s): between len(s)/4 and len(s) runes, contents not modelled
		r := u.alloc(st)
		n := u.fresh("runes", sInt)
		u.assume(st, and(sx("<=", "0", n), sx("<=", n, sx("slen", v.T)), sx("<=", sx("slen", v.T), sx("*", "4", n))))
		fr.vals[x] = Val{u.define("runeslice", sSlice, sx("mkslice", r, "0", n, n)), x.Type(), ""}
		et := x.Type().Underlying().(*types.Slice).Elem()
		es := u.sortOf(et)
		hn, hs := u.elemHeapName(et), "(Array Int (Array Int "+es+"))"
		u.hset(st, hn, hs, store(u.hget(st, hn, hs), r, u.fresh("runes_arr", "(Array Int "+es+")")))
		u.note("conversion []rune(string): length between len/4 and len, contents abstracted")
	case fs == sSlice && ts == sStr && !isByteSlice(x.X.Type()): // string([]rune): 1 to 4 bytes per rune, contents not modelled
		r := u.freshVal(st, "runestring", x.Type())
		u.assume(st, and(sx("<=", sx("s_len", v.T), sx("slen", r.T)), sx("<=", sx("slen", r.T), sx("*", "4", sx("s_len", v.T)))))
		fr.vals[x] = r
		u.note("conversion string([]rune): length between len and 4*len, contents abstracted")
	case fs == sStr && ts == sSlice: // []byte(s)
		r := u.alloc(st)
		sl := u.define("bytes", sSlice, sx("mkslice", r, "0", sx("slen", v.T), sx("slen", v.T)))
		fr.vals[x] = Val{sl, x.Type(), ""}
		hn, hs := u.elemHeapName(types.Typ[types.Uint8]), "(Array Int (Array Int Int))"
		arr := u.fresh("bytes_arr", "(Array Int Int)")
		u.hset(st, hn, hs, store(u.hget(st, hn, hs), r, arr))
		// the fresh array spells s: stated through bytes_str, whose axioms give the individual characters
		u.assume(st, eq(u.bytesStr(arr, "0", sx("slen", v.T)), v.T))
	case fs == sSlice && ts == sStr: // string(bytes)
		hn, hs := u.elemHeapName(types.Typ[types.Uint8]), "(Array Int (Array Int Int))"
		h := u.hget(st, hn, hs)
		fr.set(x, u.bytesStr(sel(h, sx("s_arr", v.T)), sx("s_off", v.T), sx("s_len", v.T)))
	case fs == sInt && ts == sStr: // string(rune)
		fr.vals[x] = u.freshVal(st, "runestr", x.Type())
	default:
		if fs == ts {
			fr.vals[x] = Val{v.T, x.Type(), ""}
		} else {
			u.note("conversion abstracted: " + x.X.Type().String() + " -> " + x.Type().String())
			fr.vals[x] = u.freshVal(st, "conv", x.Type())
		}
	}
}

// isByteSlice: a slice type whose elements are bytes (uint8).
func isByteSlice(t types.Type) bool {
	sl, ok := t.Underlying().(*types.Slice)
	if !ok {
		return false
	}
	b, ok := sl.Elem().Underlying().(*types.Basic)
	return ok && b.Kind() == types.Uint8
}

// box wraps a value into the Any datatype according to its static type.
func (u *Unit) box(st *State, v Val) string {
	t := v.Ty
	srt := u.sortOf(t)
	if srt == sAny {
		return v.T
	}
	id := fmt.Sprint(u.reg.tid(t))
	if isTimeType(t) {
		return sx("A_num", id, v.T)
	}
	switch srt {
	case sInt:
		if isPointerLike(t) {
			if _, isPtr := t.Underlying().(*types.Pointer); isPtr {
				return ite(eq(v.T, "0"), sx("A_ref", id, "0"), sx("A_ref", id, v.T))
			}
			return sx("A_ref", id, v.T)
		}
		return sx("A_num", id, v.T)
	case sReal:
		return sx("A_real", id, v.T)
	case sBool:
		return sx("A_bool", id, v.T)
	case sStr:
		return sx("A_str", id, v.T)
	case sSlice:
		return sx("A_slice", id, v.T)
	}
	// struct or array value: boxed through an uninterpreted pair of functions
	tag := sortTag(srt)
	u.reg.declFun("box_"+tag, srt, sInt)
	u.reg.declFun("unbox_"+tag, sInt, srt)
	u.reg.axiom(fmt.Sprintf("(assert (forall ((x %s)) (! (= (unbox_%s (box_%s x)) x) :pattern ((box_%s x)))))", srt, tag, tag, tag))
	return sx("A_box", id, sx("box_"+tag, v.T))
}

// unbox returns (isT, value) for a dynamic type test of Any term a against concrete type t.
func (u *Unit) unbox(a string, t types.Type) (string, string) {
	srt := u.sortOf(t)
	id := fmt.Sprint(u.reg.tid(t))
	if isTimeType(t) {
		return and(sx("(_ is A_num)", a), eq(sx("a_ntid", a), id)), sx("a_num", a)
	}
	switch srt {
	case sInt:
		if isPointerLike(t) {
			return and(sx("(_ is A_ref)", a), eq(sx("a_ptid", a), id)), sx("a_ref", a)
		}
		return and(sx("(_ is A_num)", a), eq(sx("a_ntid", a), id)), sx("a_num", a)
	case sReal:
		return and(sx("(_ is A_real)", a), eq(sx("a_rtid", a), id)), sx("a_real", a)
	case sBool:
		return and(sx("(_ is A_bool)", a), eq(sx("a_btid", a), id)), sx("a_bool", a)
	case sStr:
		return and(sx("(_ is A_str)", a), eq(sx("a_stid", a), id)), sx("a_str", a)
	case sSlice:
		return and(sx("(_ is A_slice)", a), eq(sx("a_ltid", a), id)), sx("a_slice", a)
	}
	tag := sortTag(srt)
	u.reg.declFun("box_"+tag, srt, sInt)
	u.reg.declFun("unbox_"+tag, sInt, srt)
	return and(sx("(_ is A_box)", a), eq(sx("a_xtid", a), id)), sx("unbox_"+tag, sx("a_box", a))
}

func (fr *Frame) execTypeAssert(st *State, x *ssa.TypeAssert) {
	u := fr.u
	v := fr.val(st, x.X)
	var ok, val string
	if _, isIface := x.AssertedType.Underlying().(*types.Interface); isIface {
		// assertion to an interface type: succeeds for non-nil values whose dynamic type implements it
		val = v.T
		ok = u.implementsTest(v.T, x.AssertedType)
	} else {
		ok, val = u.unbox(v.T, x.AssertedType)
	}
	if x.CommaOk {
		zero := u.zero(x.AssertedType)
		r := u.define(fr.tag+"_"+x.Name(), u.sortOf(x.AssertedType), ite(ok, val, zero))
		u.assume(st, u.facts(st, r, x.AssertedType))
		fr.tuples[x] = []Val{{r, x.AssertedType, ""}, {u.define(fr.tag+"_"+x.Name()+"_ok", sBool, ok), types.Typ[types.Bool], ""}}
		return
	}
	u.check(fr, st, "type-assert", "", ok, "interface conversion: dynamic type is not "+types.TypeString(x.AssertedType, shortQual), x.Pos(), nil)
	r := u.define(fr.tag+"_"+x.Name(), u.sortOf(x.AssertedType), val)
	u.assume(st, u.facts(st, r, x.AssertedType))
	fr.vals[x] = Val{r, x.Type(), ""}
}

func shortQual(p *types.Package) string { return p.Name() }

// implementsTest: dynamic type of a implements interface type it. Concrete candidates are the type ids
// registered so far whose method set implements it; other dynamic types are left undetermined.
func (u *Unit) implementsTest(a string, it types.Type) string {
	iface := it.Underlying().(*types.Interface)
	if iface.NumMethods() == 0 {
		return not(eq(a, "A_nil"))
	}
	name := "implements_" + sanitize(types.TypeString(it, shortQual))
	u.reg.declFun(name, sAny, sBool)
	u.note("type assertion to non-empty interface " + types.TypeString(it, shortQual) + " is uninterpreted (false for nil)")
	return and(not(eq(a, "A_nil")), sx(name, a))
}

func (fr *Frame) execRange(st *State, x *ssa.Range) {
	u := fr.u
	v := fr.val(st, x.X)
	it := &iterInfo{}
	if mt, ok := v.Ty.Underlying().(*types.Map); ok {
		dn, ds, _, _, _ := u.mapHeaps(mt)
		ks := u.sortOf(mt.Key())
		it.m = v
		it.kSort = ks
		it.dom0 = u.define("dom0", fmt.Sprintf("(Array %s Bool)", ks), ite(eq(v.T, "0"), fmt.Sprintf("((as const (Array %s Bool)) false)", ks), sel(u.hget(st, dn, ds), v.T)))
		it.cnt = fmt.Sprintf("%%seencnt_%s_%s", fr.tag, x.Name())
		u.heapSort[it.cnt] = sInt
		st.heap[it.cnt] = "0"
		_, _, _, _, cn0 := u.mapHeaps(mt)
		it.card0 = u.define("card0", sInt, sel(u.hget(st, cn0, "(Array Int Int)"), v.T))
		for _, s := range u.sinks {
			s[it.cnt] = true
		}
		it.seen = fmt.Sprintf("%%seen_%s_%s", fr.tag, x.Name())
		u.heapSort[it.seen] = fmt.Sprintf("(Array %s Bool)", ks)
		st.heap[it.seen] = fmt.Sprintf("((as const (Array %s Bool)) false)", ks)
		for _, s := range u.sinks {
			s[it.seen] = true
		}
	} else {
		it.isStr = true
		it.s = v
		it.idxVar = fmt.Sprintf("%%sidx_%s_%s", fr.tag, x.Name())
		u.heapSort[it.idxVar] = sInt
		st.heap[it.idxVar] = "0"
		for _, s := range u.sinks {
			s[it.idxVar] = true
		}
	}
	fr.iters[x] = it
	fr.vals[x] = Val{"0", x.Type(), ""}
}

func (fr *Frame) execNext(st *State, x *ssa.Next) {
	u := fr.u
	it := fr.iters[x.Iter]
	tt := x.Type().(*types.Tuple)
	if it == nil {
		var tv []Val
		for i := 0; i < tt.Len(); i++ {
			tv = append(tv, u.freshVal(st, "next", tt.At(i).Type()))
		}
		fr.tuples[x] = tv
		return
	}
	ok := u.fresh(fr.tag+"_"+x.Name()+"_ok", sBool)
	if it.isStr {
		i := st.heap[it.idxVar]
		if i == "" {
			i = u.hget(st, it.idxVar, sInt)
		}
		u.assume(st, eq(ok, sx("<", i, sx("slen", it.s.T))))
		r := u.freshVal(st, "rune", tt.At(2).Type())
		step := u.fresh("runelen", sInt)
		u.assume(st, and(sx("<=", "1", step), sx("<=", step, "4")))
		u.hset(st, it.idxVar, sInt, sx("+", i, step))
		fr.tuples[x] = []Val{{ok, tt.At(0).Type(), ""}, {i, tt.At(1).Type(), ""}, r}
		return
	}
	mt := it.m.Ty.Underlying().(*types.Map)
	k := u.fresh(fr.tag+"_"+x.Name()+"_k", it.kSort)
	seen, has := st.heap[it.seen]
	if !has {
		seen = u.hget(st, it.seen, u.heapSort[it.seen])
	}
	_, _, vn, vs, _ := u.mapHeaps(mt)
	val := sel(sel(u.hget(st, vn, vs), it.m.T), k)
	u.assume(st, implies(ok, and(sel(it.dom0, k), not(sel(seen, k)))))
	u.assume(st, implies(not(ok), fmt.Sprintf("(forall ((kk %s)) (=> (select %s kk) (select %s kk)))", it.kSort, it.dom0, seen)))
	u.hset(st, it.seen, u.heapSort[it.seen], ite(ok, store(seen, k, "true"), seen))
	cnt, hasCnt := st.heap[it.cnt]
	if !hasCnt {
		cnt = u.hget(st, it.cnt, sInt)
	}
	// each key is visited once: the iteration ends exactly when as many keys were visited as the map held
	u.assume(st, and(sx("<=", "0", cnt), sx("<=", cnt, it.card0), eq(not(ok), eq(cnt, it.card0))))
	u.hset(st, it.cnt, sInt, ite(ok, sx("+", cnt, "1"), cnt))
	kv := Val{k, tt.At(1).Type(), ""}
	u.assume(st, u.facts(st, k, tt.At(1).Type()))
	vv := Val{u.define(fr.tag+"_"+x.Name()+"_v", u.sortOf(mt.Elem()), val), tt.At(2).Type(), ""}
	u.assume(st, u.facts(st, vv.T, mt.Elem()))
	fr.tuples[x] = []Val{{ok, tt.At(0).Type(), ""}, kv, vv}
}

// privateAlloc: the address is used only for loads, stores into it, and field selection with the same restriction.
func privateAlloc(a ssa.Value) bool {
	refs := a.Referrers()
	if refs == nil {
		return false
	}
	for _, r := range *refs {
		switch x := r.(type) {
		case *ssa.UnOp:
			if x.Op != token.MUL {
				return false
			}
		case *ssa.Store:
			if x.Val == a {
				return false
			}
		case *ssa.FieldAddr:
			if !privateAlloc(x) {
				return false
			}
		case *ssa.DebugRef:
		case *ssa.MakeClosure:
			// captured by a closure that is only ever started as a goroutine: goroutines are not interleaved with the
			// function under proof (sequential assumption), so the variable stays private to this activation
			crefs := x.Referrers()
			if crefs == nil {
				return false
			}
			for _, cr := range *crefs {
				if _, isDbg := cr.(*ssa.DebugRef); isDbg {
					continue
				}
				g, ok := cr.(*ssa.Go)
				if !ok || g.Call.Value != ssa.Value(x) {
					return false
				}
			}
		default:
			if os.Getenv("GOWP_DEBUG_ALLOC") != "" {
				fmt.Fprintf(os.Stderr, "alloc %s not private: referrer %T %s\n", a.Name(), r, r)
			}
			return false
		}
	}
	return true
}

// constArray: the array that maps every index to v. Solvers accept (as const ...) only for value terms, so a
// non-value v (e.g. the constant naming the empty string) gets a named array with a defining axiom.
func (u *Unit) constArray(ks, vs, v string) string {
	if isValueTerm(v) {
		return fmt.Sprintf("((as const (Array %s %s)) %s)", ks, vs, v)
	}
	n := "carr_" + hash8(ks+"|"+vs+"|"+v)
	u.reg.declConst(n, fmt.Sprintf("(Array %s %s)", ks, vs))
	u.reg.axiom(fmt.Sprintf("(assert (forall ((i %s)) (! (= (select %s i) %s) :pattern ((select %s i)))))", ks, n, v, n))
	return n
}

func isValueTerm(v string) bool {
	if strings.Contains(v, "lit_") || strings.Contains(v, "carr_") {
		return false
	}
	return true
}

// sidx(s, i): position of element i of slice s in its backing array. An uninterpreted symbol (defined by an axiom) rather
// than (+ off i), so that quantified invariants over slice elements have matchable triggers.
func (u *Unit) sidx(s, i string) string {
	u.reg.declFun("sidx", "Slice Int", sInt)
	u.reg.axiom("(assert (forall ((s Slice) (i Int)) (! (= (sidx s i) (+ (s_off s) i)) :pattern ((sidx s i)))))")
	return sx("sidx", s, i)
}

func builtinGhostSort(name string) string {
	switch name {
	case "$atomic", "$lock":
		return "(Array Int Int)"
	case "$hashin":
		return "(Array Int Str)"
	case "$chansent":
		return "(Array Int Int)"
	case "$chanlast":
		return "(Array Int Any)"
	case "$lastjson":
		return sStr
	case "$now", "$alloc", "$lastread":
		return sInt
	case "$lastreaderr":
		return sBool
	}
	return ""
}

// unreachable asks the solver whether the current path condition is refutable from the facts gathered so far.
// Used only to avoid applying coarse abstractions on paths that the contract's precondition excludes.
//
// The answer decides which abstraction the path gets, hence which obligations the unit generates, so it must not depend
// on the machine's load or on how long the solver binary takes to start: the query runs under a resource limit (z3's
// rlimit, a deterministic step count: the same query gets the same answer on every run), never under a clock. The wall
// clock limit beside it is only a backstop against a wedged process; when it strikes (or the solver could not be run)
// the query is repeated (8 attempts, backing off), and if no attempt ends with a definite answer or with the resource limit the unit is reported
// as not analysable instead of being analysed with a different abstraction.
func (u *Unit) unreachable(st *State) bool {
	if u.discovery || u.pure > 0 || st.pc == "true" {
		return false
	}
	if st.pc == "false" {
		return true
	}
	key := st.pc
	if r, ok := u.reachCache[key]; ok {
		return r
	}
	var b strings.Builder
	b.WriteString(u.reg.prelude())
	for _, l := range u.body {
		b.WriteString(l)
		b.WriteByte('\n')
	}
	b.WriteString("(assert " + st.pc + ")\n(check-sat)\n")
	rq, _ := relaxQuery(b.String())
	res, el, rl := solveReach(rq)
	if res == "" {
		if u.failed == "" {
			u.failed = "reachability query did not finish (solver could not be run to its resource limit); nothing decided"
		}
		res = "unknown"
	}
	r := res == "unsat"
	if d := os.Getenv("GOWP_DEBUG_REACH"); d != "" {
		os.WriteFile(fmt.Sprintf("%s/reach_%d.smt2", d, len(u.reachCache)), []byte(rq), 0o644)
		fmt.Fprintf(os.Stderr, "reach[%s pass noObls=%v]: %s %.2fs pc=%s\n", u.root.Name(), u.noObls, res, el, st.pc)
	}
	if lf := os.Getenv("GOWP_REACH_LOG"); lf != "" {
		reachLogMu.Lock()
		if f, err := os.OpenFile(lf, os.O_APPEND|os.O_CREATE|os.O_WRONLY, 0o644); err == nil {
			fmt.Fprintf(f, "%s\t%s\t%.3f\t%d\t%s\n", u.eng.funcKeyShort(u.root), res, el, rl, queryHash(rq)[:12])
			f.Close()
		}
		reachLogMu.Unlock()
	}
	u.reachCache[key] = r
	return r
}

var reachLogMu sync.Mutex

// reachRlimit: z3 resource units granted to one reachability query (a quantifier-free relaxation). The queries seen on
// the pinned tree need between a few thousand and a few hundred thousand units; the limit is far above that, so an
// answer is "unknown" only for a query that is genuinely hard, and then on every run alike.
const reachRlimit = 20000000

// solveReach runs one reachability query on z3 5.1.0 under the resource limit. It returns "unsat", "sat" or "unknown"
// (resource limit reached, or the solver gave up), or "" when no attempt produced an answer; the time of the last
// attempt and the resource count z3 reports.
func solveReach(q string) (string, float64, int64) {
	dir := filepath.Join(os.TempDir(), "gowp-q")
	os.MkdirAll(dir, 0o755)
	file := filepath.Join(dir, "reach_"+queryHash(q)[:24]+tmpSuffix()+".smt2")
	if err := os.WriteFile(file, []byte(q), 0o644); err != nil {
		return "", 0, 0
	}
	defer os.Remove(file)
	sd := solverDef{"z3-5.1.0", func(f string, t int) []string {
		return []string{"z3-new", "-smt2", "-st", "rlimit=" + strconv.FormatInt(reachRlimit, 10), "-T:" + itoa(t), f}
	}}
	var el float64
	last := ""
	for attempt := 0; attempt < 8; attempt++ {
		var res, out string
		res, out, el = runSolver(sd, file, 120)
		var rl int64
		if i := strings.Index(out, ":rlimit-count"); i >= 0 {
			fmt.Sscanf(strings.TrimSpace(out[i+len(":rlimit-count"):]), "%d", &rl)
		}
		switch res {
		case "unsat", "sat", "unknown":
			return res, el, rl
		}
		// "timeout" (wall clock backstop) or "error" (the process could not be started, was killed, or printed no
		// answer): not an answer. Such failures come from a machine short of processes or memory; wait and try again
		last = res + ": " + strings.TrimSpace(out)
		d := time.Duration(1<<uint(attempt)) * time.Second
		if d > 15*time.Second {
			d = 15 * time.Second
		}
		time.Sleep(d)
	}
	if len(last) > 300 {
		last = last[:300]
	}
	fmt.Fprintln(os.Stderr, "gowp: reachability query got no answer in 8 attempts; last:", last)
	return "", el, 0
}

func isNumLit(t string) bool {
	if t == "" {
		return false
	}
	for _, c := range t {
		if !(c >= '0' && c <= '9') && c != '.' && c != '-' && c != '(' && c != ')' && c != ' ' && c != '/' {
			return false
		}
	}
	return true
}

// fmul: the product of two non-constant float64 values, kept uninterpreted (commutative, 0 and 1 neutral laws only): IEEE
// multiplication is not real multiplication, and nonlinear real arithmetic makes queries unstable.
func (u *Unit) fmul(a, b string) string {
	u.reg.declFun("fmul", "Real Real", sReal)
	u.reg.axiom("(assert (forall ((a Real) (b Real)) (! (= (fmul a b) (fmul b a)) :pattern ((fmul a b)))))")
	u.reg.axiom("(assert (forall ((a Real)) (! (and (= (fmul a 1.0) a) (= (fmul a 0.0) 0.0)) :pattern ((fmul a 1.0)) :pattern ((fmul a 0.0)))))")
	u.note("float64 multiplication of two non-constant values is uninterpreted (fmul)")
	return sx("fmul", a, b)
}

// bytesStr: the string spelled by n bytes of array arr starting at off.
func (u *Unit) bytesStr(arr, off, n string) string {
	u.reg.declFun("bytes_str", "(Array Int Int) Int Int", sStr)
	u.reg.axiom("(assert (forall ((a (Array Int Int)) (o Int) (n Int)) (! (=> (>= n 0) (= (slen (bytes_str a o n)) n)) :pattern ((bytes_str a o n)))))")
	u.reg.axiom("(assert (forall ((a (Array Int Int)) (o Int) (n Int) (i Int)) (! (=> (and (<= 0 i) (< i n)) (= (sat (bytes_str a o n) i) (select a (+ o i)))) :pattern ((sat (bytes_str a o n) i)))))")
	return sx("bytes_str", arr, off, n)
}

// effectivelyFinal: the captured variable behind free variable i of closure fn is assigned exactly once in the enclosing
// function (its initialisation) and never inside a closure that captures it.
func effectivelyFinal(fn *ssa.Function, i int) bool {
	parent := fn.Parent()
	if parent == nil {
		return false
	}
	var cell ssa.Value
	for _, b := range parent.Blocks {
		for _, in := range b.Instrs {
			if mc, ok := in.(*ssa.MakeClosure); ok && mc.Fn == ssa.Value(fn) && i < len(mc.Bindings) {
				cell = mc.Bindings[i]
			}
		}
	}
	al, ok := cell.(*ssa.Alloc)
	if !ok || al.Referrers() == nil {
		return false
	}
	stores := 0
	for _, r := range *al.Referrers() {
		switch x := r.(type) {
		case *ssa.Store:
			if x.Addr == ssa.Value(al) {
				stores++
			} else {
				return false
			}
		case *ssa.UnOp, *ssa.DebugRef:
		case *ssa.MakeClosure:
			cf := x.Fn.(*ssa.Function)
			for j, bnd := range x.Bindings {
				if bnd != ssa.Value(al) {
					continue
				}
				if refs := cf.FreeVars[j].Referrers(); refs != nil {
					for _, cr := range *refs {
						if st, ok := cr.(*ssa.Store); ok && st.Addr == ssa.Value(cf.FreeVars[j]) {
							return false
						}
						if _, isLoad := cr.(*ssa.UnOp); !isLoad {
							if _, isDbg := cr.(*ssa.DebugRef); !isDbg {
								if _, isStore := cr.(*ssa.Store); !isStore {
									return false
								}
							}
						}
					}
				}
			}
		default:
			return false
		}
	}
	return stores == 1
}
