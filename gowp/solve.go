package main

// Solver back ends: z3 5.1.0 (z3-new), z3 4.8.12, cvc5 1.0.x. One query per obligation.

import (
	"bytes"
	"context"
	"crypto/sha256"
	"encoding/hex"
	"fmt"
	"os"
	"os/exec"
	"path/filepath"
	"strconv"
	"strings"
	"sync"
	"sync/atomic"
	"time"
)

type solverDef struct {
	name string
	cmd  func(file string, timeoutS int) []string
}

var solvers = []solverDef{
	{"z3-5.1.0", func(f string, t int) []string { return []string{"z3-new", "-smt2", "-T:" + itoa(t), f} }},
	{"z3-4.8.12", func(f string, t int) []string { return []string{"z3", "-smt2", "-T:" + itoa(t), f} }},
	{"cvc5-1.0", func(f string, t int) []string {
		return []string{"cvc5", "--tlimit=" + itoa(t*1000), "--lang=smt2", f}
	}},
}

func itoa(n int) string { return strconv.Itoa(n) }

type SolveCfg struct {
	TimeoutS  int
	Workers   int
	CacheDir  string
	TmpDir    string
	SolverSeq []int // indexes into solvers
	NoRelax   bool
	NoReuse   bool // do not read the result store (every query is solved again); results are still written
}

// relaxQuery removes the quantified assumptions of a query (every "(assert ...)" line mentioning a quantifier except the
// final goal). Removing assumptions can only make a query easier to satisfy, so "unsat" for the relaxation is "unsat"
// for the query.
func relaxQuery(q string) (string, bool) {
	lines := strings.Split(q, "\n")
	last := -1
	for i, l := range lines {
		if strings.HasPrefix(l, "(assert ") {
			last = i
		}
	}
	changed := false
	var out []string
	for i, l := range lines {
		if i != last && strings.HasPrefix(l, "(assert ") && (strings.Contains(l, "(forall ") || strings.Contains(l, "(exists ")) {
			changed = true
			continue
		}
		out = append(out, l)
	}
	return strings.Join(out, "\n"), changed
}

var cacheMu sync.Mutex

// tmpSuffix makes the name of a query file unique to one solver call (process id + a counter): two obligations with the
// same query text solved at the same time must not share (and delete) each other's file, nor may two gowp processes.
var tmpSeq int64

func tmpSuffix() string {
	return "_" + itoa(os.Getpid()) + "_" + strconv.FormatInt(atomic.AddInt64(&tmpSeq, 1), 10)
}

func queryHash(q string) string {
	h := sha256.Sum256([]byte(q))
	return hex.EncodeToString(h[:])
}

func runSolver(sd solverDef, file string, timeoutS int) (string, string, float64) {
	return runSolverCtx(context.Background(), sd, file, timeoutS)
}

func runSolverCtx(parent context.Context, sd solverDef, file string, timeoutS int) (string, string, float64) {
	ctx, cancel := context.WithTimeout(parent, time.Duration(timeoutS+3)*time.Second)
	defer cancel()
	args := sd.cmd(file, timeoutS)
	cmd := exec.CommandContext(ctx, args[0], args[1:]...)
	var out bytes.Buffer
	cmd.Stdout = &out
	cmd.Stderr = &out
	t0 := time.Now()
	_ = cmd.Run()
	el := time.Since(t0).Seconds()
	o := out.String()
	first := ""
	for _, l := range strings.Split(o, "\n") {
		l = strings.TrimSpace(l)
		if l == "sat" || l == "unsat" || l == "unknown" || l == "timeout" {
			first = l
			break
		}
	}
	if first == "" || strings.Contains(o, "(error ") {
		first = "error"
	}
	return first, o, el
}

// solveAll decides every obligation; results are written into the obligations.
func solveAll(obls []*Obligation, cfg SolveCfg) {
	if cfg.Workers <= 0 {
		cfg.Workers = 16
	}
	os.MkdirAll(cfg.TmpDir, 0o755)
	if cfg.CacheDir != "" {
		os.MkdirAll(cfg.CacheDir, 0o755)
	}
	ch := make(chan *Obligation)
	var wg sync.WaitGroup
	for w := 0; w < cfg.Workers; w++ {
		wg.Add(1)
		go func(w int) {
			defer wg.Done()
			for o := range ch {
				solveOne(o, cfg, w)
			}
		}(w)
	}
	for _, o := range obls {
		ch <- o
	}
	close(ch)
	wg.Wait()
}

func solveOne(o *Obligation, cfg SolveCfg, w int) {
	if o.Class == "unit" {
		return // decided by the generator itself
	}
	h := queryHash(o.Query)
	if cfg.CacheDir != "" && !cfg.NoReuse {
		// result store: the answer a solver gave earlier to the byte-identical query (key = SHA-256 of the query text).
		// An entry is "<result> <solver>\t<seconds it took>"; the time reported for a reused answer is that original time
		if data, err := os.ReadFile(filepath.Join(cfg.CacheDir, h)); err == nil {
			line := strings.TrimSpace(string(data))
			t0 := 0.0
			if i := strings.LastIndex(line, "\t"); i >= 0 {
				fmt.Sscanf(line[i+1:], "%g", &t0)
				line = line[:i]
			}
			parts := strings.SplitN(line, " ", 2)
			if len(parts) == 2 && (parts[0] == "unsat" || parts[0] == "sat") {
				o.Result, o.Solver, o.Time = parts[0], parts[1]+" (cached)", t0
				return
			}
		}
	}
	// stage A: drop every quantified assumption (sound: fewer assumptions); most safety obligations are decided here
	if !o.Canary && !cfg.NoRelax {
		if rq, changed := relaxQuery(o.Query); changed {
			rf := filepath.Join(cfg.TmpDir, "r_"+h[:16]+tmpSuffix()+".smt2")
			if err := os.WriteFile(rf, []byte(rq), 0o644); err == nil {
				t := cfg.TimeoutS
				if t > 5 {
					t = 5
				}
				res, _, el := runSolver(solvers[0], rf, t)
				os.Remove(rf)
				if res == "unsat" {
					o.Result, o.Solver, o.Time = "unsat", solvers[0].name+" (quantifier-free relaxation)", el
					if cfg.CacheDir != "" {
						os.WriteFile(filepath.Join(cfg.CacheDir, h), []byte(fmt.Sprintf("unsat %s\t%.3f\n", o.Solver, el)), 0o644)
					}
					return
				}
			}
		}
	}
	file := filepath.Join(cfg.TmpDir, "q_"+h[:16]+tmpSuffix()+".smt2")
	if err := os.WriteFile(file, []byte(o.Query), 0o644); err != nil {
		o.Result, o.Output = "error", err.Error()
		return
	}
	defer os.Remove(file)
	seq := cfg.SolverSeq
	if len(seq) == 0 {
		seq = []int{0, 1, 2}
	}
	if o.Canary {
		// a contradiction among the quantifier-free assumptions shows up in the relaxation at once
		if rq, changed := relaxQuery(o.Query); changed {
			rf := filepath.Join(cfg.TmpDir, "c_"+h[:16]+tmpSuffix()+".smt2")
			if err := os.WriteFile(rf, []byte(rq), 0o644); err == nil {
				res, _, el := runSolver(solvers[0], rf, 5)
				os.Remove(rf)
				if res == "unsat" {
					o.Result, o.Solver, o.Time = "unsat", solvers[0].name+" (quantifier-free relaxation)", el
					return
				}
				if res == "sat" && !strings.Contains(o.Query, "(forall") {
					o.Result, o.Solver, o.Time = "sat", solvers[0].name, el
					return
				}
			}
		}
		// vacuity canaries only need "not refuted": one solver, short limit
		seq = []int{0}
		if cfg.TimeoutS > 5 {
			cfg.TimeoutS = 5
		}
	}
	// stage B: race the back ends on the full query; the first definite answer wins
	type ans struct {
		res, out, name string
		el             float64
	}
	ctx, cancel := context.WithCancel(context.Background())
	defer cancel()
	ch := make(chan ans, len(seq))
	for _, si := range seq {
		go func(sd solverDef) {
			res, out, el := runSolverCtx(ctx, sd, file, cfg.TimeoutS)
			ch <- ans{res, out, sd.name, el}
		}(solvers[si])
	}
	o.Result = "unknown"
	for range seq {
		a := <-ch
		if a.el > o.Time {
			o.Time = a.el
		}
		if a.res == "sat" || a.res == "unsat" {
			o.Result, o.Solver, o.Time, o.Output = a.res, a.name, a.el, a.out
			cancel()
			if cfg.CacheDir != "" {
				os.WriteFile(filepath.Join(cfg.CacheDir, h), []byte(fmt.Sprintf("%s %s\t%.3f\n", a.res, a.name, a.el)), 0o644)
			}
			return
		}
		if a.res == "error" && o.Output == "" {
			o.Output = a.out
		}
		o.Solver = a.name
	}
}

// modelFor re-runs a sat query with (get-model) on z3 to obtain a counterexample.
func modelFor(o *Obligation, tmpDir string, timeoutS int) string {
	q := strings.Replace(o.Query, "(check-sat)\n", "(check-sat)\n(get-model)\n", 1)
	file := filepath.Join(tmpDir, "m_"+queryHash(q)[:16]+tmpSuffix()+".smt2")
	os.MkdirAll(tmpDir, 0o755)
	if err := os.WriteFile(file, []byte(q), 0o644); err != nil {
		return ""
	}
	defer os.Remove(file)
	_, out, _ := runSolver(solvers[0], file, timeoutS)
	return out
}

// warmSolvers starts every back end once on a trivial query, so that the first real query of a run (right after a
// restore the binaries and their libraries are not in the page cache yet) does not pay the start-up cost out of its
// time limit. Nothing depends on the answers.
func warmSolvers() {
	dir := filepath.Join(os.TempDir(), "gowp-q")
	os.MkdirAll(dir, 0o755)
	file := filepath.Join(dir, "warm_"+itoa(os.Getpid())+".smt2")
	if os.WriteFile(file, []byte("(declare-const x Int)\n(assert (> x 0))\n(check-sat)\n"), 0o644) != nil {
		return
	}
	defer os.Remove(file)
	var wg sync.WaitGroup
	for _, sd := range solvers {
		wg.Add(1)
		go func(sd solverDef) {
			defer wg.Done()
			runSolver(sd, file, 60)
		}(sd)
	}
	wg.Wait()
}
