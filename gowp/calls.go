package main

// Calls: contracts at call sites, inlining of small contract-free callees, trusted library models.

import (
	"fmt"
	"go/constant"
	"go/token"
	"go/types"
	"os"
	"sort"
	"strings"

	"golang.org/x/tools/go/ssa"
)

const lockSort = "(Array Int Int)"

// execCall runs a call and then records, for callees whose last result is an error, that result in the ghost
// %lasterr_<name> (read by the spec function callok(Name)).
func (fr *Frame) execCall(st *State, c *ssa.CallCommon, in ssa.Instruction, pos token.Pos) []Val {
	rs := fr.execCall0(st, c, in, pos)
	res := c.Signature().Results()
	if n := res.Len(); n > 0 && len(rs) == n && !st.dead && fr.parent == nil {
		if nt, ok := res.At(n - 1).Type().(*types.Named); ok && nt.Obj().Pkg() == nil && nt.Obj().Name() == "error" {
			if name := calleeName(c); name != "" {
				u := fr.u
				cn := "%lasterr_" + sanitize(name)
				if _, ok := u.heapSort[cn]; !ok {
					u.heapSort[cn] = u.sortOf(nt)
				}
				st.heap[cn] = rs[n-1].T
				for _, s := range u.sinks {
					s[cn] = true
				}
			}
		}
	}
	return rs
}

func (fr *Frame) execCall0(st *State, c *ssa.CallCommon, in ssa.Instruction, pos token.Pos) []Val {
	u := fr.u
	var args []Val
	for _, a := range c.Args {
		args = append(args, fr.val(st, a))
	}
	sig := c.Signature()
	fr.countCall(st, calleeName(c), in, pos, args)
	if c.IsInvoke() {
		recv := fr.val(st, c.Value)
		if _, isMI := c.Value.(*ssa.MakeInterface); !isMI {
			u.check(fr, st, "nilptr", "", not(eq(recv.T, "A_nil")), "method call on nil interface value", pos, nil)
		}
		// statically known dynamic type?
		if mi, ok := c.Value.(*ssa.MakeInterface); ok {
			if sel := u.eng.prog.MethodSets.MethodSet(mi.X.Type()).Lookup(c.Method.Pkg(), c.Method.Name()); sel != nil {
				if fn := u.eng.prog.MethodValue(sel); fn != nil {
					return fr.callStatic(st, fn, append([]Val{fr.val(st, mi.X)}, args...), nil, in, pos, sig)
				}
			}
		}
		key := "(" + types.TypeString(c.Value.Type(), nil) + ")." + c.Method.Name()
		if rs, ok := fr.ifaceModel(st, key, recv, args, in, pos, sig); ok {
			return rs
		}
		u.note("interface method call with unknown receiver: " + key)
		u.havocAll(st, "interface call "+key)
		return fr.freshResults(st, sig)
	}
	switch callee := c.Value.(type) {
	case *ssa.Builtin:
		return fr.builtin(st, callee.Name(), c, args, in, pos)
	case *ssa.Function:
		return fr.callStatic(st, callee, args, nil, in, pos, sig)
	case *ssa.MakeClosure:
		var bs []Val
		for _, b := range callee.Bindings {
			bs = append(bs, fr.val(st, b))
		}
		return fr.callStatic(st, callee.Fn.(*ssa.Function), args, bs, in, pos, sig)
	}
	fv := fr.val(st, c.Value)
	if ci, ok := fr.clos[c.Value]; ok {
		return fr.callStatic(st, ci.fn, args, ci.bindings, in, pos, sig)
	}
	// function-valued struct field with a bound contract? (the binding stands for "this field holds that function")
	if rs, ok := fr.fieldCall(st, c.Value, args, in, pos, sig); ok {
		return rs
	}
	// any other call through a function value that is not a known closure: the value must not be nil
	if fr.parent == nil && u.sortOf(c.Value.Type()) == sInt {
		u.check(fr, st, "nilfunc", "", not(eq(fv.T, "0")), "call of a nil function value", pos, nil)
	}
	if rs, ok := fr.funcTypeCall(st, c.Value, args, in, pos, sig); ok {
		return rs
	}
	if rs, ok := fr.dynParamCall(st, c.Value, args, in, pos, sig); ok {
		return rs
	}
	u.note("call through unknown function value")
	u.havocAll(st, "dynamic call")
	return fr.freshResults(st, sig)
}

// dynParamCall: a call through a function value obtained from a parameter (directly, or as an element of a slice
// parameter) for which the root contract has a dyncalls clause.
func (fr *Frame) dynParamCall(st *State, fv ssa.Value, args []Val, in ssa.Instruction, pos token.Pos, sig *types.Signature) ([]Val, bool) {
	u := fr.u
	if fr.parent != nil || u.spec == nil || u.spec.DynCalls == nil {
		return nil, false
	}
	var p *ssa.Parameter
	switch x := fv.(type) {
	case *ssa.Parameter:
		p = x
	case *ssa.UnOp:
		if ia, ok := x.X.(*ssa.IndexAddr); ok {
			p, _ = ia.X.(*ssa.Parameter)
		}
	}
	if p == nil {
		return nil, false
	}
	targets, ok := u.spec.DynCalls[p.Name()]
	if !ok {
		return nil, false
	}
	u.note("calls through parameter " + p.Name() + " of " + u.spec.Name + " are assumed to modify at most: " + strings.Join(targets, ", "))
	tmp := &FuncSpec{Name: u.spec.Name + " dyncalls " + p.Name(), HasMod: true, Modifies: targets}
	old := st.clone()
	if !fr.applyModifies(st, old, tmp, fr.baseEnv(), fr.fn.Pkg.Pkg, "call through "+p.Name()) {
		return nil, false
	}
	return fr.freshResults(st, sig), true
}

// funcTypeCall: dynamic call of a value whose static type is a named function type with a functype contract.
func (fr *Frame) funcTypeCall(st *State, fv ssa.Value, args []Val, in ssa.Instruction, pos token.Pos, sig *types.Signature) ([]Val, bool) {
	u := fr.u
	n, ok := fv.Type().(*types.Named)
	if !ok || n.Obj().Pkg() == nil {
		return nil, false
	}
	key := n.Obj().Pkg().Path() + ".functype." + n.Obj().Name()
	spec, ok := u.eng.contracts.Funcs[key]
	if !ok {
		return nil, false
	}
	u.note("function-type contract used (assumed for every value of the type): " + n.Obj().Name())
	return fr.applyAnonSpec(st, spec, map[string]Val{}, n.Obj().Pkg(), n.Obj().Name(), args, pos, sig)
}

// applyAnonSpec applies a contract that is not attached to a function body (function type, function-valued field):
// parameters are named after the signature (and arg0, arg1, ...).
func (fr *Frame) applyAnonSpec(st *State, spec *FuncSpec, env map[string]Val, pkg *types.Package, name string, args []Val, pos token.Pos, sig *types.Signature) ([]Val, bool) {
	u := fr.u
	for i := 0; i < sig.Params().Len() && i < len(args); i++ {
		if nm := sig.Params().At(i).Name(); nm != "" {
			env[nm] = args[i]
		}
		env[fmt.Sprintf("arg%d", i)] = args[i]
	}
	ctx := &specCtx{fr: fr, cur: st, old: st, env: env, pkg: pkg}
	for _, cl := range spec.Requires {
		t, err := u.specBool(cl.Expr, ctx)
		if err != nil {
			u.failed = fmt.Sprintf("%s:%d: %v", cl.File, cl.Line, err)
			return nil, false
		}
		u.check(fr, st, "pre", sanitize(name)+"."+clauseKey(cl), t, "precondition of "+name+": "+cl.Text, pos, cl.Props)
	}
	if rs, ok := fr.functionalResult(st, spec, env, pkg, sig); ok {
		return rs, true
	}
	old := st.clone()
	if !fr.applyModifies(st, old, spec, env, pkg, name) {
		return nil, false
	}
	rs := fr.freshResults(st, sig)
	if len(rs) > 0 {
		env["result"] = rs[0]
	}
	for i, r := range rs {
		env[fmt.Sprintf("result%d", i)] = r
	}
	for _, cl := range spec.Ensures {
		t, err := u.specBool(cl.Expr, &specCtx{fr: fr, cur: st, old: old, env: env, pkg: pkg})
		if err != nil {
			u.failed = fmt.Sprintf("%s:%d: %v", cl.File, cl.Line, err)
			return rs, true
		}
		u.assume(st, t)
	}
	return rs, true
}

func (fr *Frame) freshResults(st *State, sig *types.Signature) []Val {
	var rs []Val
	for i := 0; i < sig.Results().Len(); i++ {
		rs = append(rs, fr.u.freshVal(st, "res", sig.Results().At(i).Type()))
	}
	return rs
}

func (e *Engine) isRepoFunc(fn *ssa.Function) bool {
	return fn.Pkg != nil && strings.HasPrefix(fn.Pkg.Pkg.Path(), e.module)
}

func (fr *Frame) callStatic(st *State, fn *ssa.Function, args []Val, bindings []Val, in ssa.Instruction, pos token.Pos, sig *types.Signature) []Val {
	u := fr.u
	origin := fn
	if fn.Origin() != nil {
		origin = fn.Origin()
	}
	name := origin.String()
	if spec := u.eng.specFor(fn); spec != nil && !(fn == u.root && fr.parent == nil && false) {
		return fr.applyContract(st, spec, fn, args, in, pos, sig)
	}
	if m, ok := models[name]; ok {
		u.note("library model: " + name)
		if rs, ok := m(fr, st, args, in, pos); ok {
			return rs
		}
	}
	if fn.Blocks != nil && u.eng.isRepoFunc(fn) && fr.canInline(fn) {
		return fr.inline(st, fn, args, bindings, in)
	}
	if fn.Blocks != nil && !u.eng.isRepoFunc(fn) && fr.canInlineLib(fn) {
		return fr.inline(st, fn, args, bindings, in)
	}
	// default effect rule
	fr.defaultEffects(st, fn, name, args)
	return fr.freshResults(st, sig)
}

var purePkgs = map[string]bool{"fmt": true, "log": true, "errors": true, "strings": true, "strconv": true, "math": true, "unicode": true,
	"unicode/utf8": true, "reflect": true, "time": true, "runtime": true, "math/big": true, "cmp": true, "bytes": true, "path": true,
	"path/filepath": true, "crypto/sha256": true, "crypto/md5": true, "encoding/hex": true, "regexp": true, "math/rand": true, "hash/fnv": true}

func (fr *Frame) defaultEffects(st *State, fn *ssa.Function, name string, args []Val) {
	u := fr.u
	pkg := ""
	if fn.Pkg != nil {
		pkg = fn.Pkg.Pkg.Path()
	} else if fn.Origin() != nil && fn.Origin().Pkg != nil {
		pkg = fn.Origin().Pkg.Pkg.Path()
	}
	if purePkgs[pkg] {
		u.note("assumed effect-free (reviewed package list): " + name)
		return
	}
	if u.eng.isRepoFunc(fn) {
		u.note("repo callee without contract, not inlinable: " + name)
		u.havocAll(st, "call to "+name)
		return
	}
	escapes := false
	var sliceElems []types.Type
	isRepoType := func(t types.Type) bool {
		if n, ok := t.(*types.Named); ok && n.Obj().Pkg() != nil {
			return strings.HasPrefix(n.Obj().Pkg().Path(), u.eng.module)
		}
		return false
	}
	for _, a := range args {
		if a.Ty == nil {
			continue
		}
		switch t := a.Ty.Underlying().(type) {
		case *types.Pointer:
			// a pointer to an object of a type declared outside the repository (e.g. *os.File): the callee can only change
			// that foreign object, which repository code never inspects directly
			if n, ok := t.Elem().(*types.Named); ok && n.Obj().Pkg() != nil && !isRepoType(t.Elem()) {
				if _, isStruct := n.Underlying().(*types.Struct); isStruct {
					continue
				}
			}
			escapes = true
		case *types.Interface:
			// a value passed as an interface type declared outside the repository (net.Conn, io.Reader, ...): assumed not to
			// call back into repository state
			if n, ok := a.Ty.(*types.Named); ok && n.Obj().Pkg() != nil && !isRepoType(a.Ty) {
				u.note("value passed to third-party code as " + n.Obj().Pkg().Name() + "." + n.Obj().Name() + " is assumed not to call back into repository state")
				continue
			}
			escapes = true
		case *types.Map, *types.Chan, *types.Signature:
			escapes = true
		case *types.Slice:
			es := u.sortOf(t.Elem())
			if es == sInt || es == sStr || es == sReal || es == sBool {
				sliceElems = append(sliceElems, t.Elem())
			} else {
				escapes = true
			}
		case *types.Struct:
			if isTimeType(a.Ty) {
				continue
			}
			escapes = true
		}
	}
	if escapes {
		u.havocAllX(st, "external call with reference arguments: "+name, true)
		return
	}
	for _, et := range sliceElems {
		u.note("external call may write slice elements: " + name)
		hn := u.elemHeapName(et)
		u.heapSort[hn] = "(Array Int (Array Int " + u.sortOf(et) + "))"
		u.hget(st, hn, u.heapSort[hn])
		u.havocName(st, hn)
	}
	u.note("external call, scalar arguments only, assumed not to touch repository state: " + name)
}

func instrCount(fn *ssa.Function) int {
	n := 0
	for _, b := range fn.Blocks {
		n += len(b.Instrs)
	}
	return n
}

func (fr *Frame) canInline(fn *ssa.Function) bool {
	if fr.depth >= 4 || instrCount(fn) > 300 || len(findLoops(fn)) > 0 {
		return false
	}
	for _, f := range fr.u.inlineStack {
		if f == fn {
			return false
		}
	}
	if fn == fr.u.root {
		return false
	}
	if fn.Recover != nil {
		return false
	}
	return true
}

func (fr *Frame) canInlineLib(fn *ssa.Function) bool {
	// a few tiny standard-library helpers are clearer inlined than modelled
	return false
}

func (fr *Frame) inline(st *State, fn *ssa.Function, args []Val, bindings []Val, in ssa.Instruction) []Val {
	u := fr.u
	sub := u.newFrame(fn, fr)
	sub.spec = nil
	for i, p := range fn.Params {
		if i < len(args) {
			sub.vals[p] = Val{args[i].T, p.Type(), ""}
		}
	}
	for i, fv := range fn.FreeVars {
		if i < len(bindings) {
			sub.vals[fv] = bindings[i]
		} else {
			sub.vals[fv] = u.freshVal(st, "fv_"+fv.Name(), fv.Type())
		}
	}
	u.inlineStack = append(u.inlineStack, fn)
	sub.run(st)
	u.inlineStack = u.inlineStack[:len(u.inlineStack)-1]
	// propagate closure knowledge of returned closures? not needed
	if len(sub.rets) == 0 {
		st.dead = true
		st.pc = "false"
		return fr.freshResults(st, fn.Signature)
	}
	var ins []*State
	var conds []string
	for _, r := range sub.rets {
		ins = append(ins, r.st)
		conds = append(conds, r.st.pc)
	}
	m := fr.mergeStates(fr.curBlk, ins, conds)
	st.pc, st.heap, st.epoch = m.pc, m.heap, m.epoch
	var rs []Val
	n := fn.Signature.Results().Len()
	for i := 0; i < n; i++ {
		term := sub.rets[len(sub.rets)-1].vals[i].T
		for k := len(sub.rets) - 2; k >= 0; k-- {
			term = ite(conds[k], sub.rets[k].vals[i].T, term)
		}
		rt := fn.Signature.Results().At(i).Type()
		rs = append(rs, Val{u.define("inl_"+fn.Name(), u.sortOf(rt), term), rt, ""})
	}
	return rs
}

// ---------- contracts at call sites ----------

func (u *Unit) paramEnv(fn *ssa.Function, args []Val) map[string]Val {
	env := map[string]Val{}
	for i, p := range fn.Params {
		if i < len(args) {
			env[p.Name()] = Val{args[i].T, p.Type(), ""}
		}
	}
	return env
}

type modTarget struct {
	heap, hsort string
	idx         string // "" = the whole heap variable
}

func (fr *Frame) applyContract(st *State, spec *FuncSpec, fn *ssa.Function, args []Val, in ssa.Instruction, pos token.Pos, sig *types.Signature) []Val {
	return fr.applyContractEnv(st, spec, fn, args, nil, in, pos, sig)
}

func (fr *Frame) applyContractEnv(st *State, spec *FuncSpec, fn *ssa.Function, args []Val, extra map[string]Val, in ssa.Instruction, pos token.Pos, sig *types.Signature) []Val {
	u := fr.u
	u.note("callee contract used: " + u.eng.funcKey(fn))
	env := u.paramEnv(fn, args)
	for k, v := range extra {
		env[k] = v
	}
	cname := sanitize(fn.Name())
	ctx := &specCtx{fr: fr, cur: st, old: st, env: env, pkg: fn.Pkg.Pkg}
	for _, cl := range spec.Requires {
		t, err := u.specBool(cl.Expr, ctx)
		if err != nil {
			u.failed = fmt.Sprintf("%s:%d: %v", cl.File, cl.Line, err)
			return fr.freshResults(st, sig)
		}
		u.check(fr, st, "pre", cname+"."+clauseKey(cl), t, "precondition of "+fn.Name()+": "+cl.Text, pos, cl.Props)
	}
	if err := fr.callSiteInvs(st, st, spec, fn, env, true, pos); err != nil {
		u.failed = err.Error()
		return fr.freshResults(st, sig)
	}
	if err := u.globalInvs(fr, st, spec, fn.Pkg.Pkg.Path(), true, pos, "pre"); err != nil {
		u.failed = err.Error()
		return fr.freshResults(st, sig)
	}
	if rs, ok := fr.functionalResult(st, spec, env, fn.Pkg.Pkg, sig); ok {
		return rs
	}
	old := st.clone()
	if !fr.applyModifies(st, old, spec, env, fn.Pkg.Pkg, fn.Name()) {
		return fr.freshResults(st, sig)
	}
	rs := fr.freshResults(st, sig)
	u.bindResultNames(env, spec, fn, rs)
	pctx := &specCtx{fr: fr, cur: st, old: old, env: env, pkg: fn.Pkg.Pkg}
	for _, cl := range spec.Ensures {
		t, err := u.specBool(cl.Expr, pctx)
		if err != nil {
			u.failed = fmt.Sprintf("%s:%d: %v", cl.File, cl.Line, err)
			return rs
		}
		u.assume(st, t)
	}
	if err := fr.callSiteInvs(st, old, spec, fn, env, false, pos); err != nil {
		u.failed = err.Error()
	}
	if err := u.globalInvs(fr, st, spec, fn.Pkg.Pkg.Path(), false, pos, ""); err != nil {
		u.failed = err.Error()
	}
	return rs
}

// functionalResult: inside a pure evaluation (closure bodies evaluated to a term) a callee contract cannot introduce a fresh
// result; when the contract writes nothing and pins its single result with `ensures result == E`, E itself is the result.
func (fr *Frame) functionalResult(st *State, spec *FuncSpec, env map[string]Val, pkg *types.Package, sig *types.Signature) ([]Val, bool) {
	u := fr.u
	if u.pure == 0 || sig.Results().Len() != 1 || !spec.HasMod || len(spec.Modifies) != 0 && !(len(spec.Modifies) == 1 && spec.Modifies[0] == "nothing") {
		return nil, false
	}
	for _, cl := range spec.Ensures {
		e := cl.Expr
		if e.Op == "bin" && e.Name == "==" && len(e.Args) == 2 && e.Args[0].Op == "ident" && e.Args[0].Name == "result" {
			v, err := u.specVal(e.Args[1], &specCtx{fr: fr, cur: st, old: st, env: env, pkg: pkg})
			if err != nil {
				return nil, false
			}
			v.Ty = sig.Results().At(0).Type()
			return []Val{v}, true
		}
	}
	return nil, false
}

// applyModifies havocs what a contract's modifies clause names (evaluated in the pre-state old).
func (fr *Frame) applyModifies(st, old *State, spec *FuncSpec, env map[string]Val, pkg *types.Package, name string) bool {
	u := fr.u
	// frame
	if !spec.HasMod {
		u.havocAll(st, "callee "+name+" has a contract without modifies clause")
	} else {
		mts, err := u.resolveModifies(spec, &specCtx{fr: fr, cur: old, old: old, env: env, pkg: pkg})
		if err != nil {
			u.failed = err.Error()
			return false
		}
		if !spec.Flags["noalloc"] {
			u.hget(st, "$alloc", sInt)
			u.havocName(st, "$alloc")
		}
		for _, mt := range mts {
			if mt.heap == "*" {
				u.havocAll(st, "callee "+name+" modifies *")
				continue
			}
			if mt.idx == "" {
				u.heapSort[mt.heap] = mt.hsort
				u.hget(st, mt.heap, mt.hsort)
				u.havocName(st, mt.heap)
			} else {
				h := u.hget(st, mt.heap, mt.hsort)
				es := elemSortOfArray(mt.hsort)
				nv := u.fresh(mt.heap+"_at", es)
				if hi, ok := u.heapInfo[mt.heap]; ok && !u.discovery {
					a := u.hget(st, "$alloc", sInt)
					switch hi.levels {
					case 1:
						u.assumeGlobal(u.wfVal(nv, hi.elemTy, a))
					case 2:
						if w := u.wfVal("(select "+nv+" k)", hi.elemTy, a); w != "true" {
							u.assumeGlobal(fmt.Sprintf("(forall ((k %s)) (! %s :pattern ((select %s k))))", hi.keySort, w, nv))
						}
					}
				}
				u.hset(st, mt.heap, mt.hsort, store(h, mt.idx, nv))
			}
		}
		for _, mt := range mts {
			if tag, ok := mapTagOf(mt.heap); ok && mt.idx != "" && strings.HasPrefix(mt.heap, "Mdom_") {
				u.mapObjWF(st, tag, mt.idx)
			}
		}
	}
	return true
}

// callSiteInvs checks (before the call) or assumes (after it) the data-structure invariants the callee preserves.
func (fr *Frame) callSiteInvs(st, old *State, spec *FuncSpec, fn *ssa.Function, env map[string]Val, check bool, pos token.Pos) error {
	u := fr.u
	for _, name := range spec.Preserves {
		target := ""
		if i := strings.Index(name, "."); i >= 0 {
			target, name = name[:i], name[i+1:]
		} else if len(fn.Params) > 0 {
			target = fn.Params[0].Name()
		}
		v, ok := env[target]
		if !ok {
			return fmt.Errorf("%s: preserves %s: no parameter %s", spec.Name, name, target)
		}
		t, err := u.typeInvTerm(v, name, &specCtx{fr: fr, cur: st, old: old, env: env, pkg: fn.Pkg.Pkg})
		if err != nil {
			return err
		}
		if check {
			u.check(fr, st, "pre", sanitize(fn.Name())+".inv."+name, t, "data-structure invariant "+name+" required by "+fn.Name(), pos, spec.Props)
		} else {
			u.assume(st, t)
		}
	}
	return nil
}

func (u *Unit) bindResultNames(env map[string]Val, spec *FuncSpec, fn *ssa.Function, rs []Val) {
	if len(rs) >= 1 {
		env["result"] = rs[0]
	}
	for i, r := range rs {
		env[fmt.Sprintf("result%d", i)] = r
	}
	res := fn.Signature.Results()
	for i := 0; i < res.Len() && i < len(rs); i++ {
		if n := res.At(i).Name(); n != "" && n != "_" {
			if _, clash := env[n]; !clash {
				env[n] = rs[i]
			}
		}
	}
	if spec != nil {
		for i, n := range spec.ResultNames {
			if i < len(rs) {
				env[n] = rs[i]
			}
		}
	}
}

func elemSortOfArray(arr string) string {
	// "(Array Int X)" -> X
	s := strings.TrimPrefix(arr, "(Array Int ")
	return strings.TrimSuffix(s, ")")
}

// resolveModifies turns the textual modifies targets into heap locations (evaluated in ctx).
func (u *Unit) resolveModifies(spec *FuncSpec, ctx *specCtx) ([]modTarget, error) {
	var out []modTarget
	for _, t := range spec.Modifies {
		t = strings.TrimSpace(t)
		switch {
		case t == "*":
			out = append(out, modTarget{heap: "*"})
			continue
		case strings.HasPrefix(t, "$"):
			srt, ok := u.eng.contracts.Ghosts[t]
			if !ok {
				srt = builtinGhostSort(t)
				ok = srt != ""
			}
			if !ok {
				return nil, fmt.Errorf("%s: unknown ghost %s in modifies", spec.Name, t)
			}
			out = append(out, modTarget{heap: t, hsort: srt})
			continue
		case t == "locks":
			out = append(out, modTarget{heap: "$lock", hsort: lockSort})
			continue
		case strings.HasPrefix(t, "heap:"):
			n := strings.TrimPrefix(t, "heap:")
			srt, ok := u.heapSort[n]
			if (!ok || srt == "") && builtinGhostSort(n) != "" {
				srt, ok = builtinGhostSort(n), true
				u.heapSort[n] = srt
			}
			if !ok {
				// unknown so far in this unit: nothing read from it yet; declare lazily with a guess is impossible
				u.note("modifies names heap variable not otherwise used: " + n)
				continue
			}
			out = append(out, modTarget{heap: n, hsort: srt})
			continue
		}
		wild := false
		if strings.HasSuffix(t, "[*]") {
			wild = true
			t = strings.TrimSuffix(t, "[*]")
		}
		e, err := parseExpr(t)
		if err != nil {
			return nil, fmt.Errorf("%s: modifies %q: %v", spec.Name, t, err)
		}
		if wild {
			v, err := u.specVal(e, ctx)
			if err != nil {
				return nil, fmt.Errorf("%s: modifies %q: %v", spec.Name, t, err)
			}
			switch tt := v.Ty.Underlying().(type) {
			case *types.Slice:
				es := u.sortOf(tt.Elem())
				out = append(out, modTarget{heap: u.elemHeapName(tt.Elem()), hsort: "(Array Int (Array Int " + es + "))", idx: sx("s_arr", v.T)})
			case *types.Map:
				dn, ds, vn, vs, cn := u.mapHeaps(tt)
				out = append(out, modTarget{dn, ds, v.T}, modTarget{vn, vs, v.T}, modTarget{cn, "(Array Int Int)", v.T})
			default:
				return nil, fmt.Errorf("%s: modifies %q[*]: not a slice or map", spec.Name, t)
			}
			continue
		}
		if e.Op != "sel" {
			return nil, fmt.Errorf("%s: modifies target %q must be x.f, T.f, x[*], $ghost or *", spec.Name, t)
		}
		// T.f (whole field heap) when the qualifier is a type name
		if ty := u.tryType(e.Args[0], ctx); ty != nil {
			st, ok := ty.Underlying().(*types.Struct)
			if !ok {
				return nil, fmt.Errorf("%s: modifies %q: %s is not a struct type", spec.Name, t, ty)
			}
			fi := fieldIndex(st, e.Name)
			if fi < 0 {
				return nil, fmt.Errorf("%s: modifies %q: no field %s", spec.Name, t, e.Name)
			}
			hn, hs, _ := fieldHeap(u, ty, fi)
			out = append(out, modTarget{heap: hn, hsort: hs})
			continue
		}
		base, err := u.specVal(e.Args[0], ctx)
		if err != nil {
			return nil, fmt.Errorf("%s: modifies %q: %v", spec.Name, t, err)
		}
		pt, ok := base.Ty.Underlying().(*types.Pointer)
		if !ok {
			return nil, fmt.Errorf("%s: modifies %q: base is not a pointer to struct", spec.Name, t)
		}
		stt, ok := pt.Elem().Underlying().(*types.Struct)
		if !ok {
			return nil, fmt.Errorf("%s: modifies %q: base is not a pointer to struct", spec.Name, t)
		}
		fi := fieldIndex(stt, e.Name)
		if fi < 0 {
			return nil, fmt.Errorf("%s: modifies %q: no field %s", spec.Name, t, e.Name)
		}
		hn, hs, _ := fieldHeap(u, pt.Elem(), fi)
		out = append(out, modTarget{heap: hn, hsort: hs, idx: base.T})
	}
	return out, nil
}

func fieldIndex(st *types.Struct, name string) int {
	for i := 0; i < st.NumFields(); i++ {
		if st.Field(i).Name() == name {
			return i
		}
	}
	return -1
}

// mapObjWF re-states mapWF for the single map object m of heap tag `tag` after its contents were havocked.
func (u *Unit) mapObjWF(st *State, tag, m string) {
	mt := u.mapTags[tag]
	if mt == nil || u.discovery {
		return
	}
	ks := u.sortOf(mt.Key())
	d := sel(u.hget(st, "Mdom_"+tag, u.heapSort["Mdom_"+tag]), m)
	v := sel(u.hget(st, "Mval_"+tag, u.heapSort["Mval_"+tag]), m)
	c := sel(u.hget(st, "Mcard_"+tag, "(Array Int Int)"), m)
	dd := u.define("mdom", fmt.Sprintf("(Array %s Bool)", ks), d)
	vv := u.define("mval", fmt.Sprintf("(Array %s %s)", ks, u.sortOf(mt.Elem())), v)
	u.assume(st, fmt.Sprintf("(forall ((k %s)) (! (=> (not (select %s k)) (= (select %s k) %s)) :pattern ((select %s k))))", ks, dd, vv, u.zero(mt.Elem()), vv))
	u.assume(st, sx(">=", c, "0"))
	u.assume(st, fmt.Sprintf("(forall ((k %s)) (! (=> (select %s k) (> %s 0)) :pattern ((select %s k))))", ks, dd, c, dd))
}

// fieldCall: call through a function-valued struct field that has a bound contract.
func (fr *Frame) fieldCall(st *State, fv ssa.Value, args []Val, in ssa.Instruction, pos token.Pos, sig *types.Signature) ([]Val, bool) {
	u := fr.u
	var structTy types.Type
	var fieldName string
	switch x := fv.(type) {
	case *ssa.Field:
		structTy = x.X.Type()
		fieldName = structTy.Underlying().(*types.Struct).Field(x.Field).Name()
	case *ssa.UnOp:
		if fa, ok := x.X.(*ssa.FieldAddr); ok && x.Op == token.MUL {
			structTy = fa.X.Type().Underlying().(*types.Pointer).Elem()
			fieldName = structTy.Underlying().(*types.Struct).Field(fa.Field).Name()
		}
	}
	if structTy == nil {
		return nil, false
	}
	n, ok := structTy.(*types.Named)
	if !ok {
		return nil, false
	}
	key := n.Obj().Pkg().Name() + "." + n.Obj().Name() + "." + fieldName
	fb := u.eng.contracts.Fields[key]
	if fb == nil {
		if spec, ok := u.eng.contracts.Funcs["fieldspec."+key]; ok {
			u.note("function-valued field contract used (assumed for every value stored in the field): " + key)
			env := map[string]Val{}
			switch x := fv.(type) {
			case *ssa.UnOp:
				if fa, ok := x.X.(*ssa.FieldAddr); ok {
					env["this"] = fr.val(st, fa.X)
				}
			case *ssa.Field:
				env["this"] = fr.val(st, x.X)
			}
			return fr.applyAnonSpec(st, spec, env, n.Obj().Pkg(), key, args, pos, sig)
		}
		return nil, false
	}
	tfn := u.eng.funcsByShort[fb.Target]
	if tfn == nil {
		u.failed = "field binding target not found: " + fb.Target
		return nil, false
	}
	spec := u.eng.specFor(tfn)
	if spec == nil {
		u.failed = "field binding target has no contract: " + fb.Target
		return nil, false
	}
	full := args
	var extra map[string]Val
	if tfn.Signature.Recv() != nil {
		recv, err := u.ghostVal(st, fb.Recv, tfn.Params[0].Type())
		if err != nil {
			u.failed = err.Error()
			return nil, false
		}
		full = append([]Val{recv}, args...)
	} else if len(tfn.FreeVars) > 0 && fb.Recv != "" {
		// a closure: its first captured variable (a cell holding the server pointer) is the bound object
		fv := tfn.FreeVars[0]
		ty := fv.Type()
		if pt, ok := ty.Underlying().(*types.Pointer); ok {
			ty = pt.Elem()
		}
		recv, err := u.ghostVal(st, fb.Recv, ty)
		if err != nil {
			u.failed = err.Error()
			return nil, false
		}
		extra = map[string]Val{fv.Name(): recv}
	}
	return fr.applyContractEnv(st, spec, tfn, full, extra, in, pos, sig), true
}

// ghostVal reads a ghost constant (e.g. $srv) as a value of Go type t.
func (u *Unit) ghostVal(st *State, name string, t types.Type) (Val, error) {
	if !strings.HasPrefix(name, "$") {
		return Val{}, fmt.Errorf("receiver binding %q must be a ghost constant", name)
	}
	c := "ghost_" + sanitize(name[1:])
	u.reg.declConst(c, u.sortOf(t))
	u.assumeGlobal(and(sx("<", "0", c), sx("<", c, u.allocEntry)))
	return Val{c, t, ""}, nil
}

// ---------- builtins ----------

func (fr *Frame) builtin(st *State, name string, c *ssa.CallCommon, args []Val, in ssa.Instruction, pos token.Pos) []Val {
	u := fr.u
	switch name {
	case "len":
		return []Val{{fr.lenOf(st, args[0]), types.Typ[types.Int], ""}}
	case "cap":
		if u.sortOf(args[0].Ty) == sSlice {
			return []Val{{sx("s_cap", args[0].T), types.Typ[types.Int], ""}}
		}
	case "append":
		return []Val{fr.doAppend(st, args[0], args[1], c.Args[1])}
	case "copy":
		dst, src := args[0], args[1]
		n := u.fresh("copyn", sInt)
		srcLen := fr.lenOf(st, src)
		u.assume(st, eq(n, ite(sx("<", sx("s_len", dst.T), srcLen), sx("s_len", dst.T), srcLen)))
		if t, ok := dst.Ty.Underlying().(*types.Slice); ok {
			es := u.sortOf(t.Elem())
			hn, hs := u.elemHeapName(t.Elem()), "(Array Int (Array Int "+es+"))"
			h := u.hget(st, hn, hs)
			na := u.fresh("copied", "(Array Int "+es+")")
			oldArr := sel(h, sx("s_arr", dst.T))
			var srcAt string
			if u.sortOf(src.Ty) == sSlice {
				srcAt = fmt.Sprintf("(select (select %s (s_arr %s)) (+ (s_off %s) (- i (s_off %s))))", h, src.T, src.T, dst.T)
			} else {
				srcAt = fmt.Sprintf("(sat %s (- i (s_off %s)))", src.T, dst.T)
			}
			u.assume(st, fmt.Sprintf("(forall ((i Int)) (! (= (select %s i) (ite (and (<= (s_off %s) i) (< i (+ (s_off %s) %s))) %s (select %s i))) :pattern ((select %s i))))",
				na, dst.T, dst.T, n, srcAt, oldArr, na))
			u.hset(st, hn, hs, store(h, sx("s_arr", dst.T), na))
		}
		return []Val{{n, types.Typ[types.Int], ""}}
	case "delete":
		m := args[0]
		mt := m.Ty.Underlying().(*types.Map)
		// delete on a nil map is a no-op; index 0 is never a live map, so writing it is harmless
		u.mapDelete(st, mt, m.T, args[1].T)
		return nil
	case "clear":
		switch t := args[0].Ty.Underlying().(type) {
		case *types.Map:
			dn, ds, vn, vs, cn := u.mapHeaps(t)
			ks := u.sortOf(t.Key())
			u.hset(st, vn, vs, store(u.hget(st, vn, vs), args[0].T, u.constArray(ks, u.sortOf(t.Elem()), u.zero(t.Elem()))))
			u.hset(st, dn, ds, store(u.hget(st, dn, ds), args[0].T, fmt.Sprintf("((as const (Array %s Bool)) false)", ks)))
			u.hset(st, cn, "(Array Int Int)", store(u.hget(st, cn, "(Array Int Int)"), args[0].T, "0"))
		case *types.Slice:
			// clear(slice) zeroes the elements and keeps the length
			es := u.sortOf(t.Elem())
			hn, hs := u.elemHeapName(t.Elem()), "(Array Int (Array Int "+es+"))"
			h := u.hget(st, hn, hs)
			na := u.fresh("cleared", "(Array Int "+es+")")
			s := args[0].T
			u.assume(st, fmt.Sprintf("(forall ((i Int)) (! (= (select %s i) (ite (and (<= (s_off %s) i) (< i (+ (s_off %s) (s_len %s)))) %s (select (select %s (s_arr %s)) i))) :pattern ((select %s i))))",
				na, s, s, s, u.zero(t.Elem()), h, s, na))
			u.hset(st, hn, hs, store(h, sx("s_arr", s), na))
		}
		return nil
	case "min", "max":
		op := "<"
		if name == "max" {
			op = ">"
		}
		r := args[0].T
		for _, a := range args[1:] {
			r = ite(sx(op, a.T, r), a.T, r)
		}
		return []Val{{r, args[0].Ty, ""}}
	case "print", "println", "close":
		return nil
	case "recover":
		return []Val{{"A_nil", types.NewInterfaceType(nil, nil), ""}}
	case "panic":
		u.check(fr, st, "panic", "", "false", "explicit panic is unreachable", pos, nil)
		return nil
	}
	u.note("builtin abstracted: " + name)
	return fr.freshResults(st, c.Signature())
}

func (fr *Frame) lenOf(st *State, v Val) string {
	u := fr.u
	switch t := v.Ty.Underlying().(type) {
	case *types.Slice:
		return sx("s_len", v.T)
	case *types.Basic:
		return sx("slen", v.T)
	case *types.Map:
		return u.mapLen(st, t, v.T)
	case *types.Array:
		return fmt.Sprint(t.Len())
	case *types.Pointer:
		if at, ok := t.Elem().Underlying().(*types.Array); ok {
			return fmt.Sprint(at.Len())
		}
	case *types.Chan:
		r := u.fresh("chanlen", sInt)
		u.assume(st, sx("<=", "0", r))
		return r
	}
	return u.fresh("len", sInt)
}

// doAppend implements append(s, t...) with Go's in-place growth when capacity allows.
func (fr *Frame) doAppend(st *State, s, t Val, tOperand ssa.Value) Val {
	u := fr.u
	slt, ok := s.Ty.Underlying().(*types.Slice)
	if !ok {
		return u.freshVal(st, "append", s.Ty)
	}
	et := slt.Elem()
	es := u.sortOf(et)
	hn, hs := u.elemHeapName(et), "(Array Int (Array Int "+es+"))"
	asort := "(Array Int " + es + ")"
	h := u.hget(st, hn, hs)
	var n string
	tIsStr := u.sortOf(t.Ty) == sStr
	if tIsStr {
		n = sx("slen", t.T)
	} else {
		n = sx("s_len", t.T)
	}
	tAt := func(i string) string {
		if tIsStr {
			return sx("sat", t.T, i)
		}
		return sel(sel(h, sx("s_arr", t.T)), u.sidx(t.T, i))
	}
	// static single-element append?
	single := false
	if sl, ok := tOperand.(*ssa.Slice); ok {
		if al, ok := sl.X.(*ssa.Alloc); ok {
			if at, ok := al.Type().(*types.Pointer).Elem().Underlying().(*types.Array); ok && at.Len() == 1 && sl.Low == nil && sl.High == nil {
				single = true
			}
		}
	}
	newLen := u.define("applen", sInt, sx("+", sx("s_len", s.T), n))
	fits := u.define("appfits", sBool, sx("<=", newLen, sx("s_cap", s.T)))
	sarr := sel(h, sx("s_arr", s.T))
	newRef := u.alloc(st)
	newCap := u.fresh("appcap", sInt)
	u.assume(st, sx(">=", newCap, newLen))
	var inplace, realloc string
	if single {
		x := u.define("appelem", es, tAt("0"))
		inplace = store(sarr, u.sidx(s.T, sx("s_len", s.T)), x)
		ra := u.fresh("apparr", asort)
		u.assume(st, fmt.Sprintf("(forall ((i Int)) (! (=> (and (<= 0 i) (< i (s_len %s))) (= (select %s i) (select %s (sidx %s i)))) :pattern ((select %s i))))", s.T, ra, sarr, s.T, ra))
		realloc = store(ra, sx("s_len", s.T), x)
	} else {
		ia := u.fresh("appin", asort)
		u.assume(st, fmt.Sprintf("(forall ((i Int)) (! (= (select %s i) (ite (and (<= (+ (s_off %s) (s_len %s)) i) (< i (+ (s_off %s) %s))) %s (select %s i))) :pattern ((select %s i))))",
			ia, s.T, s.T, s.T, newLen, tAt(fmt.Sprintf("(- i (+ (s_off %s) (s_len %s)))", s.T, s.T)), sarr, ia))
		inplace = ia
		ra := u.fresh("apparr", asort)
		u.assume(st, fmt.Sprintf("(forall ((i Int)) (! (=> (and (<= 0 i) (< i %s)) (= (select %s i) (ite (< i (s_len %s)) (select %s (sidx %s i)) %s))) :pattern ((select %s i))))",
			newLen, ra, s.T, sarr, s.T, tAt(fmt.Sprintf("(- i (s_len %s))", s.T)), ra))
		realloc = ra
	}
	// appending nothing to a nil slice yields nil; otherwise a non-nil slice
	u.markWrite(hn, sx("s_arr", s.T))
	nh := ite(fits, store(h, sx("s_arr", s.T), inplace), store(h, newRef, realloc))
	u.hset(st, hn, hs, nh)
	res := ite(fits, sx("mkslice", sx("s_arr", s.T), sx("s_off", s.T), newLen, sx("s_cap", s.T)), sx("mkslice", newRef, "0", newLen, newCap))
	r := u.define("appended", sSlice, res)
	// when the append happens in place, element i of the result sits where element i of the operand sat: stated with sidx
	// terms so that quantified facts about the operand (triggered on sidx) apply to the result
	u.sidx(r, "0")
	u.assume(st, implies(fits, fmt.Sprintf("(forall ((i Int)) (! (= (sidx %s i) (sidx %s i)) :pattern ((sidx %s i))))", r, s.T, r)))
	return Val{r, s.Ty, ""}
}

// ---------- interface-method models ----------

func (fr *Frame) ifaceModel(st *State, key string, recv Val, args []Val, in ssa.Instruction, pos token.Pos, sig *types.Signature) ([]Val, bool) {
	u := fr.u
	switch key {
	case "(context.Context).Value":
		u.reg.declFun("ctx_value", "Any Any", sAny)
		u.note("library model: context.Context.Value (uninterpreted lookup)")
		return []Val{{sx("ctx_value", recv.T, args[0].T), sig.Results().At(0).Type(), ""}}, true
	case "(error).Error":
		return fr.freshResults(st, sig), true
	case "(hash.Hash).Write":
		// the bytes written so far, as a string (only writes of []byte(s) conversions are tracked exactly)
		hn, hs := "$hashin", "(Array Int Str)"
		h := u.hget(st, hn, hs)
		ref := sx("a_ref", recv.T)
		var in0 string
		if call, ok := in.(ssa.CallInstruction); ok && len(call.Common().Args) == 1 {
			if cv, ok := call.Common().Args[0].(*ssa.Convert); ok && u.sortOf(cv.X.Type()) == sStr {
				in0 = fr.val(st, cv.X).T
			}
		}
		if in0 == "" {
			in0 = u.fresh("hashed_bytes", sStr)
		}
		u.hset(st, hn, hs, store(h, ref, u.concat(sel(h, ref), in0)))
		n := u.freshVal(st, "hashwrite_n", types.Typ[types.Int])
		return []Val{n, {"A_nil", sig.Results().At(1).Type(), ""}}, true
	case "(hash.Hash).Sum":
		u.reg.declFun("hash_sum", "Str", sSlice)
		hn, hs := "$hashin", "(Array Int Str)"
		r := u.define("hashsum", sSlice, sx("hash_sum", sel(u.hget(st, hn, hs), sx("a_ref", recv.T))))
		u.note("library model: hash.Hash Write/Sum (digest = uninterpreted function of the bytes written)")
		return []Val{{r, sig.Results().At(0).Type(), ""}}, true
	case "(github.com/echovault/sugardb/internal/clock.Clock).Now":
		if u.spec != nil && u.spec.Flags["clockadvances"] && fr.parent == nil {
			// every reading may be later than the previous one
			prev := u.hget(st, "$now", sInt)
			n := u.fresh("now", sInt)
			u.assume(st, sx(">=", n, prev))
			u.hset(st, "$now", sInt, n)
			u.note("library model: clock.Now returns a non-decreasing ghost clock (flag clockadvances)")
			return []Val{{n, sig.Results().At(0).Type(), ""}}, true
		}
		u.note("library model: clock.Now returns the ghost clock $now (constant during one call)")
		return []Val{{u.hget(st, "$now", sInt), sig.Results().At(0).Type(), ""}}, true
	}
	// contract on an interface method, e.g. "//@ func (CompositeType).GetMem" in the package declaring the interface
	if call, ok := in.(ssa.CallInstruction); ok {
		if n, ok := call.Common().Value.Type().(*types.Named); ok && n.Obj().Pkg() != nil {
			k := n.Obj().Pkg().Path() + ".(" + n.Obj().Name() + ")." + call.Common().Method.Name()
			if spec, ok := u.eng.contracts.Funcs[k]; ok {
				u.note("interface method contract used (assumed for every implementation): " + k)
				env := map[string]Val{"this": recv}
				msig := call.Common().Method.Type().(*types.Signature)
				for i := 0; i < msig.Params().Len() && i < len(args); i++ {
					if nm := msig.Params().At(i).Name(); nm != "" {
						env[nm] = args[i]
					}
					env[fmt.Sprintf("arg%d", i)] = args[i]
				}
				ctx := &specCtx{fr: fr, cur: st, old: st, env: env, pkg: n.Obj().Pkg()}
				for _, cl := range spec.Requires {
					t, err := u.specBool(cl.Expr, ctx)
					if err != nil {
						u.failed = fmt.Sprintf("%s:%d: %v", cl.File, cl.Line, err)
						return nil, false
					}
					u.check(fr, st, "pre", sanitize(call.Common().Method.Name())+"."+clauseKey(cl), t, "precondition of "+k+": "+cl.Text, pos, cl.Props)
				}
				if rs, ok := fr.functionalResult(st, spec, env, n.Obj().Pkg(), sig); ok {
					return rs, true
				}
				old := st.clone()
				if !fr.applyModifies(st, old, spec, env, n.Obj().Pkg(), k) {
					return nil, false
				}
				rs := fr.freshResults(st, sig)
				if len(rs) > 0 {
					env["result"] = rs[0]
				}
				for i, r := range rs {
					env[fmt.Sprintf("result%d", i)] = r
				}
				for _, cl := range spec.Ensures {
					t, err := u.specBool(cl.Expr, &specCtx{fr: fr, cur: st, old: old, env: env, pkg: n.Obj().Pkg()})
					if err != nil {
						u.failed = fmt.Sprintf("%s:%d: %v", cl.File, cl.Line, err)
						return rs, true
					}
					u.assume(st, t)
				}
				return rs, true
			}
		}
	}
	return nil, false
}

// ---------- library models ----------

type modelFn func(fr *Frame, st *State, args []Val, in ssa.Instruction, pos token.Pos) ([]Val, bool)

var models map[string]modelFn

func init() {
	tInt, tBool, tStr := types.Typ[types.Int], types.Typ[types.Bool], types.Typ[types.String]
	errT := types.Universe.Lookup("error").Type()
	noop := func(fr *Frame, st *State, args []Val, in ssa.Instruction, pos token.Pos) ([]Val, bool) {
		return nil, true
	}
	models = map[string]modelFn{
		"runtime.GC":              noop,
		"log.Printf":              noop,
		"log.Println":             noop,
		"log.Print":               noop,
		"(*sync.WaitGroup).Add":   noop,
		"(*sync.WaitGroup).Done":  noop,
		"(*sync.Mutex).Lock":      lockModel("lock", 0),
		"(*sync.Mutex).Unlock":    lockModel("unlock", 0),
		"(*sync.RWMutex).Lock":    lockModel("lock", 1),
		"(*sync.RWMutex).Unlock":  lockModel("unlock", 1),
		"(*sync.RWMutex).RLock":   lockModel("rlock", 1),
		"(*sync.RWMutex).RUnlock": lockModel("runlock", 1),
	}
	models["strings.ToLower"] = func(fr *Frame, st *State, args []Val, in ssa.Instruction, pos token.Pos) ([]Val, bool) {
		u := fr.u
		u.reg.declFun("str_lower", "Str", sStr)
		u.reg.axiom("(assert (forall ((s Str)) (! (and (= (slen (str_lower s)) (slen s)) (= (str_lower (str_lower s)) (str_lower s))) :pattern ((str_lower s)))))")
		return []Val{{sx("str_lower", args[0].T), tStr, ""}}, true
	}
	models["strings.ToUpper"] = func(fr *Frame, st *State, args []Val, in ssa.Instruction, pos token.Pos) ([]Val, bool) {
		u := fr.u
		u.reg.declFun("str_upper", "Str", sStr)
		u.reg.axiom("(assert (forall ((s Str)) (! (and (= (slen (str_upper s)) (slen s)) (= (str_upper (str_upper s)) (str_upper s))) :pattern ((str_upper s)))))")
		return []Val{{sx("str_upper", args[0].T), tStr, ""}}, true
	}
	models["strings.EqualFold"] = func(fr *Frame, st *State, args []Val, in ssa.Instruction, pos token.Pos) ([]Val, bool) {
		u := fr.u
		u.reg.declFun("str_lower", "Str", sStr)
		u.reg.axiom("(assert (forall ((s Str)) (! (and (= (slen (str_lower s)) (slen s)) (= (str_lower (str_lower s)) (str_lower s))) :pattern ((str_lower s)))))")
		return []Val{{eq(sx("str_lower", args[0].T), sx("str_lower", args[1].T)), tBool, ""}}, true
	}
	models["strings.Contains"] = func(fr *Frame, st *State, args []Val, in ssa.Instruction, pos token.Pos) ([]Val, bool) {
		u := fr.u
		u.reg.declFun("str_contains", "Str Str", sBool)
		// s contains t  <=>  exists k. 0<=k<=len s-len t and forall i<len t. s[k+i]=t[i]
		u.reg.axiom("(assert (forall ((s Str) (t Str)) (! (= (str_contains s t) (exists ((k Int)) (and (<= 0 k) (<= (+ k (slen t)) (slen s)) (forall ((i Int)) (=> (and (<= 0 i) (< i (slen t))) (= (sat s (+ k i)) (sat t i))))))) :pattern ((str_contains s t)))))")
		return []Val{{sx("str_contains", args[0].T, args[1].T), tBool, ""}}, true
	}
	models["cmp.Compare"] = func(fr *Frame, st *State, args []Val, in ssa.Instruction, pos token.Pos) ([]Val, bool) {
		if fr.u.sortOf(args[0].Ty) != sInt && fr.u.sortOf(args[0].Ty) != sReal {
			return nil, false
		}
		a, b := args[0].T, args[1].T
		return []Val{{ite(sx("<", a, b), "(- 1)", ite(sx(">", a, b), "1", "0")), tInt, ""}}, true
	}
	models["errors.New"] = func(fr *Frame, st *State, args []Val, in ssa.Instruction, pos token.Pos) ([]Val, bool) {
		r := fr.u.freshVal(st, "err", errT)
		fr.u.assume(st, not(eq(r.T, "A_nil")))
		return []Val{r}, true
	}
	models["fmt.Errorf"] = models["errors.New"]
	models["fmt.Sprintf"] = func(fr *Frame, st *State, args []Val, in ssa.Instruction, pos token.Pos) ([]Val, bool) {
		u := fr.u
		call, ok := in.(ssa.CallInstruction)
		if !ok {
			return []Val{u.freshVal(st, "sprintf", tStr)}, true
		}
		fc, ok := call.Common().Args[0].(*ssa.Const)
		if !ok || fc.Value == nil || fc.Value.Kind() != constant.String {
			return []Val{u.freshVal(st, "sprintf", tStr)}, true
		}
		format := constant.StringVal(fc.Value)
		// only the verbs %s %d %v (no flags) are modelled; anything else leaves the result undetermined
		var pieces []string
		lit := ""
		argi := 0
		h := u.hget(st, u.elemHeapName(tAnyT), "(Array Int (Array Int Any))")
		elem := func(i int) string { return sel(sel(h, sx("s_arr", args[1].T)), u.sidx(args[1].T, fmt.Sprint(i))) }
		for i := 0; i < len(format); i++ {
			if format[i] != '%' {
				lit += string(format[i])
				continue
			}
			if i+1 >= len(format) {
				return []Val{u.freshVal(st, "sprintf", tStr)}, true
			}
			v := format[i+1]
			i++
			if v == '%' {
				lit += "%"
				continue
			}
			if lit != "" {
				pieces = append(pieces, u.reg.strLit(lit))
				lit = ""
			}
			e := elem(argi)
			argi++
			switch v {
			case 's':
				pieces = append(pieces, sx("a_str", e))
			case 'd':
				u.declItoa()
				pieces = append(pieces, sx("itoa", sx("a_num", e)))
			case 'v':
				u.reg.declFun("fmt_v", "Any", sStr)
				u.declItoa()
				// %v of a string is the string, of an int its decimal text; other dynamic types stay uninterpreted
				pieces = append(pieces, ite(sx("(_ is A_str)", e), sx("a_str", e), ite(and(sx("(_ is A_num)", e), eq(sx("a_ntid", e), fmt.Sprint(u.reg.tid(types.Typ[types.Int])))), sx("itoa", sx("a_num", e)), sx("fmt_v", e))))
			default:
				return []Val{u.freshVal(st, "sprintf", tStr)}, true
			}
		}
		if lit != "" {
			pieces = append(pieces, u.reg.strLit(lit))
		}
		if len(pieces) == 0 {
			return []Val{{u.reg.strLit(""), tStr, ""}}, true
		}
		r := pieces[len(pieces)-1]
		for i := len(pieces) - 2; i >= 0; i-- {
			r = u.concat(pieces[i], r)
		}
		u.note("library model: fmt.Sprintf with a constant format (verbs %s %d %v)")
		return []Val{{u.define("sprintf", sStr, r), tStr, ""}}, true
	}
	models["time.Now"] = func(fr *Frame, st *State, args []Val, in ssa.Instruction, pos token.Pos) ([]Val, bool) {
		r := fr.u.fresh("wallclock", sInt)
		fr.u.note("time.Now returns an unconstrained instant")
		return []Val{{r, in.(ssa.Value).Type(), ""}}, true
	}
	timeCmp := func(op string) modelFn {
		return func(fr *Frame, st *State, args []Val, in ssa.Instruction, pos token.Pos) ([]Val, bool) {
			return []Val{{sx(op, args[0].T, args[1].T), tBool, ""}}, true
		}
	}
	models["(time.Time).Before"] = timeCmp("<")
	models["(time.Time).After"] = timeCmp(">")
	models["(time.Time).Equal"] = timeCmp("=")
	models["(time.Time).IsZero"] = func(fr *Frame, st *State, args []Val, in ssa.Instruction, pos token.Pos) ([]Val, bool) {
		return []Val{{eq(args[0].T, "0"), tBool, ""}}, true
	}
	models["(time.Time).Add"] = func(fr *Frame, st *State, args []Val, in ssa.Instruction, pos token.Pos) ([]Val, bool) {
		return []Val{{sx("+", args[0].T, args[1].T), args[0].Ty, ""}}, true
	}
	models["(time.Time).Sub"] = func(fr *Frame, st *State, args []Val, in ssa.Instruction, pos token.Pos) ([]Val, bool) {
		return []Val{{sx("-", args[0].T, args[1].T), in.(ssa.Value).Type(), ""}}, true
	}
	// time is nanoseconds relative to the zero Time; Unix* are offsets from the epoch constant
	unixOf := func(div string) modelFn {
		return func(fr *Frame, st *State, args []Val, in ssa.Instruction, pos token.Pos) ([]Val, bool) {
			fr.u.reg.declConst("unix_epoch_ns", sInt)
			d := sx("-", args[0].T, "unix_epoch_ns")
			if div != "1" {
				d = goDiv(d, div)
			}
			return []Val{{d, types.Typ[types.Int64], ""}}, true
		}
	}
	models["(time.Time).UnixNano"] = unixOf("1")
	models["(time.Time).UnixMilli"] = unixOf("1000000")
	models["(time.Time).Unix"] = unixOf("1000000000")
	models["time.UnixMilli"] = func(fr *Frame, st *State, args []Val, in ssa.Instruction, pos token.Pos) ([]Val, bool) {
		fr.u.reg.declConst("unix_epoch_ns", sInt)
		return []Val{{sx("+", "unix_epoch_ns", sx("*", args[0].T, "1000000")), in.(ssa.Value).Type(), ""}}, true
	}
	models["time.Unix"] = func(fr *Frame, st *State, args []Val, in ssa.Instruction, pos token.Pos) ([]Val, bool) {
		fr.u.reg.declConst("unix_epoch_ns", sInt)
		return []Val{{sx("+", "unix_epoch_ns", sx("*", args[0].T, "1000000000"), args[1].T), in.(ssa.Value).Type(), ""}}, true
	}
	models["math/rand.Intn"] = func(fr *Frame, st *State, args []Val, in ssa.Instruction, pos token.Pos) ([]Val, bool) {
		u := fr.u
		u.check(fr, st, "rand-arg", "", sx(">", args[0].T, "0"), "rand.Intn argument must be positive", pos, nil)
		r := u.fresh("rand", sInt)
		u.assume(st, and(sx("<=", "0", r), sx("<", r, args[0].T)))
		u.note("effect: rand")
		return []Val{{r, tInt, ""}}, true
	}
	models["context.WithValue"] = func(fr *Frame, st *State, args []Val, in ssa.Instruction, pos token.Pos) ([]Val, bool) {
		u := fr.u
		u.reg.declFun("ctx_value", "Any Any", sAny)
		r := u.fresh("ctx", sAny)
		u.assume(st, not(eq(r, "A_nil")))
		u.assume(st, eq(sx("ctx_value", r, args[1].T), args[2].T))
		u.assume(st, fmt.Sprintf("(forall ((k Any)) (! (=> (not (= k %s)) (= (ctx_value %s k) (ctx_value %s k))) :pattern ((ctx_value %s k))))", args[1].T, r, args[0].T, r))
		return []Val{{r, args[0].Ty, ""}}, true
	}
	models["context.Background"] = func(fr *Frame, st *State, args []Val, in ssa.Instruction, pos token.Pos) ([]Val, bool) {
		u := fr.u
		u.reg.declFun("ctx_value", "Any Any", sAny)
		u.reg.declConst("ctx_background", sAny)
		u.reg.axiom("(assert (and (not (= ctx_background A_nil)) (forall ((k Any)) (! (= (ctx_value ctx_background k) A_nil) :pattern ((ctx_value ctx_background k))))))")
		return []Val{{"ctx_background", in.(ssa.Value).Type(), ""}}, true
	}
	models["context.TODO"] = models["context.Background"]
	models["slices.Contains"] = func(fr *Frame, st *State, args []Val, in ssa.Instruction, pos token.Pos) ([]Val, bool) {
		u := fr.u
		s, v := args[0], args[1]
		slt, ok := s.Ty.Underlying().(*types.Slice)
		if !ok {
			return nil, false
		}
		es := u.sortOf(slt.Elem())
		h := u.hget(st, u.elemHeapName(slt.Elem()), "(Array Int (Array Int "+es+"))")
		r := u.fresh("contains", sBool)
		u.assume(st, eq(r, fmt.Sprintf("(exists ((i Int)) (and (<= 0 i) (< i (s_len %s)) (= (select (select %s (s_arr %s)) (sidx %s i)) %s)))", s.T, h, s.T, s.T, v.T)))
		// a slice literal (whole fixed-size array, at most 8 elements): also state the finite disjunction, which needs no
		// quantifier instantiation
		if call, ok := in.(ssa.CallInstruction); ok && len(call.Common().Args) == 2 {
			if sl, ok := call.Common().Args[0].(*ssa.Slice); ok && sl.Low == nil && sl.High == nil {
				if pt, ok := sl.X.Type().Underlying().(*types.Pointer); ok {
					if at, ok := pt.Elem().Underlying().(*types.Array); ok && at.Len() <= 8 {
						var ds []string
						for i := int64(0); i < at.Len(); i++ {
							ds = append(ds, eq(sel(sel(h, sx("s_arr", s.T)), u.sidx(s.T, fmt.Sprint(i))), v.T))
						}
						if len(ds) == 0 {
							u.assume(st, not(r))
						} else {
							u.assume(st, eq(r, sx("or", append(ds, "false")...)))
						}
					}
				}
			}
		}
		return []Val{{r, tBool, ""}}, true
	}
	models["slices.Index"] = func(fr *Frame, st *State, args []Val, in ssa.Instruction, pos token.Pos) ([]Val, bool) {
		u := fr.u
		s, v := args[0], args[1]
		slt, ok := s.Ty.Underlying().(*types.Slice)
		if !ok {
			return nil, false
		}
		es := u.sortOf(slt.Elem())
		h := u.hget(st, u.elemHeapName(slt.Elem()), "(Array Int (Array Int "+es+"))")
		at := func(i string) string { return sel(sel(h, sx("s_arr", s.T)), u.sidx(s.T, i)) }
		r := u.fresh("index", sInt)
		u.assume(st, and(sx("<=", "(- 1)", r), sx("<", r, sx("s_len", s.T))))
		u.assume(st, implies(sx(">=", r, "0"), eq(at(r), v.T)))
		u.assume(st, fmt.Sprintf("(forall ((i Int)) (=> (and (<= 0 i) (< i (ite (>= %s 0) %s (s_len %s)))) (not (= %s %s))))", r, r, s.T, at("i"), v.T))
		return []Val{{r, tInt, ""}}, true
	}
	idxFunc := func(want string) modelFn {
		return func(fr *Frame, st *State, args []Val, in ssa.Instruction, pos token.Pos) ([]Val, bool) {
			u := fr.u
			s := args[0]
			slt, ok := s.Ty.Underlying().(*types.Slice)
			if !ok {
				return nil, false
			}
			call := in.(ssa.CallInstruction).Common()
			ci := fr.clos[call.Args[1]]
			if ci == nil {
				return nil, false
			}
			es := u.sortOf(slt.Elem())
			h := u.hget(st, u.elemHeapName(slt.Elem()), "(Array Int (Array Int "+es+"))")
			at := func(i string) string { return sel(sel(h, sx("s_arr", s.T)), u.sidx(s.T, i)) }
			pred := func(x string) (string, bool) { return fr.closurePred(st, ci, Val{x, slt.Elem(), ""}) }
			r := u.fresh("indexfunc", sInt)
			pr, ok1 := pred(at(r))
			pi, ok2 := pred(at("i"))
			if !ok1 || !ok2 {
				// impure callback (e.g. it records what it rejected): havoc what it may write, result undetermined
				ws := fr.closureWrites(st, ci)
				if ws == nil {
					return nil, false
				}
				u.note("impure callback passed to slices." + want + ": its writes are havocked, the result is undetermined")
				names := make([]string, 0, len(ws))
				for k := range ws {
					if strings.HasPrefix(k, "!") {
						continue
					}
					if !isLocalName(k) || strings.HasPrefix(k, "%loc_") {
						names = append(names, k)
					}
				}
				sort.Strings(names)
				for _, k := range names {
					srt, known := u.heapSort[k]
					if !known {
						continue
					}
					// A component the callback writes only inside objects it allocated itself is left alone: what existed
					// before is unchanged, and the new objects sit at references that were unallocated (unconstrained) anyway.
					if !ws["!"+k] && strings.HasPrefix(srt, "(Array Int ") && k != "$alloc" {
						continue
					}
					u.hget(st, k, srt)
					u.havocName(st, k)
				}
				u.hget(st, "$alloc", sInt)
				u.havocName(st, "$alloc")
				if want == "ContainsFunc" {
					return []Val{u.freshVal(st, "containsfunc", tBool)}, true
				}
				rr := u.fresh("indexfunc", sInt)
				u.assume(st, and(sx("<=", "(- 1)", rr), sx("<", rr, sx("s_len", s.T))))
				return []Val{{rr, tInt, ""}}, true
			}
			u.note("closure passed to slices." + want + " is assumed not to panic")
			u.assume(st, and(sx("<=", "(- 1)", r), sx("<", r, sx("s_len", s.T))))
			u.assume(st, implies(sx(">=", r, "0"), pr))
			u.assume(st, fmt.Sprintf("(forall ((i Int)) (=> (and (<= 0 i) (< i (ite (>= %s 0) %s (s_len %s)))) (not %s)))", r, r, s.T, pi))
			if want == "ContainsFunc" {
				return []Val{{sx(">=", r, "0"), tBool, ""}}, true
			}
			return []Val{{r, tInt, ""}}, true
		}
	}
	// slices.SortFunc / slices.Sort / sort.Strings: the elements are permuted in place. Abstracted: the backing array holds
	// arbitrary (well-formed) elements afterwards, the slice header and everything else are unchanged; the comparison
	// function is not run (it is assumed to have no effects).
	sortModel := func(fr *Frame, st *State, args []Val, in ssa.Instruction, pos token.Pos) ([]Val, bool) {
		u := fr.u
		slt, ok := args[0].Ty.Underlying().(*types.Slice)
		if !ok {
			return nil, false
		}
		et := slt.Elem()
		es := u.sortOf(et)
		hn, hs := u.elemHeapName(et), "(Array Int (Array Int "+es+"))"
		h := u.hget(st, hn, hs)
		u.markWrite(hn, sx("s_arr", args[0].T))
		na := u.fresh("sorted", "(Array Int "+es+")")
		// positions outside the slice keep their contents
		u.assume(st, fmt.Sprintf("(forall ((i Int)) (! (=> (or (< i (s_off %s)) (>= i (+ (s_off %s) (s_len %s)))) (= (select %s i) (select (select %s (s_arr %s)) i))) :pattern ((select %s i))))",
			args[0].T, args[0].T, args[0].T, na, h, args[0].T, na))
		if w := u.wfVal("(select "+na+" i)", et, u.hget(st, "$alloc", sInt)); w != "true" {
			u.assume(st, fmt.Sprintf("(forall ((i Int)) (! %s :pattern ((select %s i))))", w, na))
		}
		u.hset(st, hn, hs, store(h, sx("s_arr", args[0].T), na))
		// the new contents are a rearrangement of the old ones: every new element was there and every old element still is
		// (for slices without repeated elements this is a permutation)
		oldAt := func(i string) string { return sel(sel(h, sx("s_arr", args[0].T)), u.sidx(args[0].T, i)) }
		newAt := func(i string) string { return sel(na, u.sidx(args[0].T, i)) }
		u.sidx(args[0].T, "0")
		inr := func(i string) string { return and(sx("<=", "0", i), sx("<", i, sx("s_len", args[0].T))) }
		// a bijection between positions: new[i] == old[perm(i)], with inverse inv
		perm, pinv := u.freshName("sortperm"), u.freshName("sortinv")
		u.emit(fmt.Sprintf("(declare-fun %s (Int) Int)", perm))
		u.emit(fmt.Sprintf("(declare-fun %s (Int) Int)", pinv))
		u.assume(st, fmt.Sprintf("(forall ((i Int)) (! (=> %s (and %s (= %s %s) (= (%s (%s i)) i))) :pattern (%s)))",
			inr("i"), inr("("+perm+" i)"), newAt("i"), oldAt("("+perm+" i)"), pinv, perm, newAt("i")))
		u.assume(st, fmt.Sprintf("(forall ((j Int)) (! (=> %s (and %s (= (%s (%s j)) j) (= %s %s))) :pattern (%s)))",
			inr("j"), inr("("+pinv+" j)"), perm, pinv, newAt("("+pinv+" j)"), oldAt("j"), oldAt("j")))
		// ... ordered by the comparison function when that is a pure closure
		sorted := false
		if call, ok := in.(ssa.CallInstruction); ok && len(call.Common().Args) == 2 {
			if ci := fr.clos[call.Common().Args[1]]; ci != nil {
				if t, ok := fr.closureTerm(st, ci, []Val{{newAt("i"), et, ""}, {newAt("j"), et, ""}}); ok {
					u.assume(st, fmt.Sprintf("(forall ((i Int) (j Int)) (! (=> (and (<= 0 i) (< i j) (< j (s_len %s))) (<= %s 0)) :pattern (%s %s)))", args[0].T, t, newAt("i"), newAt("j")))
					sorted = true
				}
			}
		}
		if sorted {
			u.note("library model: in-place sort (result is a rearrangement of the elements, ordered by the pure comparison closure)")
		} else {
			u.note("library model: in-place sort (result is a rearrangement of the elements; comparison function not run)")
		}
		return nil, true
	}
	models["slices.SortFunc"] = sortModel
	models["slices.SortStableFunc"] = sortModel
	models["slices.Sort"] = sortModel
	models["sort.Strings"] = sortModel
	models["slices.IndexFunc"] = idxFunc("IndexFunc")
	models["slices.ContainsFunc"] = idxFunc("ContainsFunc")
	models["strconv.Itoa"] = func(fr *Frame, st *State, args []Val, in ssa.Instruction, pos token.Pos) ([]Val, bool) {
		fr.u.declItoa()
		return []Val{{sx("itoa", args[0].T), tStr, ""}}, true
	}
	models["strconv.Atoi"] = func(fr *Frame, st *State, args []Val, in ssa.Instruction, pos token.Pos) ([]Val, bool) {
		u := fr.u
		u.declItoa()
		ok := sx("atoi_ok", args[0].T)
		e := u.freshVal(st, "err", errT)
		u.assume(st, eq(eq(e.T, "A_nil"), ok))
		n := u.define("atoi", sInt, ite(ok, sx("atoi", args[0].T), "0"))
		u.assume(st, u.facts(st, n, tInt))
		return []Val{{n, tInt, ""}, e}, true
	}
	// strconv.ParseInt(s, 10, 64|0): the decimal integer Atoi parses (a 64-bit int on this platform)
	models["strconv.ParseInt"] = func(fr *Frame, st *State, args []Val, in ssa.Instruction, pos token.Pos) ([]Val, bool) {
		u := fr.u
		ci, ok := in.(ssa.CallInstruction)
		if !ok || len(ci.Common().Args) != 3 {
			return nil, false
		}
		base, ok1 := ci.Common().Args[1].(*ssa.Const)
		bits, ok2 := ci.Common().Args[2].(*ssa.Const)
		if !ok1 || !ok2 || base.Value == nil || bits.Value == nil || base.Int64() != 10 || (bits.Int64() != 64 && bits.Int64() != 0) {
			return nil, false
		}
		u.declItoa()
		okT := sx("atoi_ok", args[0].T)
		e := u.freshVal(st, "err", errT)
		u.assume(st, eq(eq(e.T, "A_nil"), okT))
		n := u.define("parseint", sInt, ite(okT, sx("atoi", args[0].T), "0"))
		u.assume(st, u.facts(st, n, types.Typ[types.Int64]))
		return []Val{{n, types.Typ[types.Int64], ""}, e}, true
	}
	// strconv.ParseFloat(s, 64): the uninterpreted pair (atof, atof_ok)
	models["strconv.ParseFloat"] = func(fr *Frame, st *State, args []Val, in ssa.Instruction, pos token.Pos) ([]Val, bool) {
		u := fr.u
		u.reg.declFun("atof", "Str", sReal)
		u.reg.declFun("atof_ok", "Str", sBool)
		okT := sx("atof_ok", args[0].T)
		e := u.freshVal(st, "err", errT)
		u.assume(st, eq(eq(e.T, "A_nil"), okT))
		n := u.define("parsefloat", sReal, ite(okT, sx("atof", args[0].T), "0.0"))
		return []Val{{n, types.Typ[types.Float64], ""}, e}, true
	}
	// bufio: a reader delivers between 0 and len(p) bytes per Read (contents arbitrary); the byte count and whether an error
	// came with it are remembered in the ghosts $lastread / $lastreaderr
	models["bufio.NewReader"] = func(fr *Frame, st *State, args []Val, in ssa.Instruction, pos token.Pos) ([]Val, bool) {
		u := fr.u
		r := u.alloc(st)
		return []Val{{r, in.(ssa.Value).Type(), ""}}, true
	}
	models["(*bufio.Reader).Read"] = func(fr *Frame, st *State, args []Val, in ssa.Instruction, pos token.Pos) ([]Val, bool) {
		u := fr.u
		p := args[1]
		n := u.fresh("readn", sInt)
		u.assume(st, and(sx("<=", "0", n), sx("<=", n, sx("s_len", p.T))))
		e := u.freshVal(st, "readerr", errT)
		hn, hs := u.elemHeapName(types.Typ[types.Uint8]), "(Array Int (Array Int Int))"
		h := u.hget(st, hn, hs)
		u.markWrite(hn, sx("s_arr", p.T))
		na := u.fresh("readbuf", "(Array Int Int)")
		u.assume(st, fmt.Sprintf("(forall ((i Int)) (! (and (<= 0 (select %s i)) (<= (select %s i) 255) (=> (or (< i (s_off %s)) (>= i (+ (s_off %s) (s_len %s)))) (= (select %s i) (select (select %s (s_arr %s)) i)))) :pattern ((select %s i))))",
			na, na, p.T, p.T, p.T, na, h, p.T, na))
		u.hset(st, hn, hs, store(h, sx("s_arr", p.T), na))
		u.hset(st, "$lastread", sInt, n)
		u.hset(st, "$lastreaderr", sBool, not(eq(e.T, "A_nil")))
		u.note("library model: (*bufio.Reader).Read (0..len(p) bytes, arbitrary contents; $lastread, $lastreaderr)")
		return []Val{{n, tInt, ""}, e}, true
	}
	models["(*bufio.Reader).Buffered"] = func(fr *Frame, st *State, args []Val, in ssa.Instruction, pos token.Pos) ([]Val, bool) {
		u := fr.u
		n := u.fresh("buffered", sInt)
		u.assume(st, sx("<=", "0", n))
		return []Val{{n, tInt, ""}}, true
	}
	models["errors.Is"] = func(fr *Frame, st *State, args []Val, in ssa.Instruction, pos token.Pos) ([]Val, bool) {
		u := fr.u
		u.reg.declFun("errors_is", "Any Any", sBool)
		// a nil error is no error
		r := sx("errors_is", args[0].T, args[1].T)
		u.assume(st, implies(eq(args[0].T, "A_nil"), eq(r, eq(args[1].T, "A_nil"))))
		return []Val{{r, tBool, ""}}, true
	}
	_ = sort.Strings
	initHeapModels()
	initAtomicModels()
	models["crypto/sha256.New"] = func(fr *Frame, st *State, args []Val, in ssa.Instruction, pos token.Pos) ([]Val, bool) {
		u := fr.u
		r := u.alloc(st)
		hn, hs := "$hashin", "(Array Int Str)"
		u.hset(st, hn, hs, store(u.hget(st, hn, hs), r, u.reg.strLit("")))
		t := in.(ssa.Value).Type()
		return []Val{{sx("A_ref", fmt.Sprint(u.reg.tid(t)), r), t, ""}}, true
	}
	models["encoding/hex.EncodeToString"] = func(fr *Frame, st *State, args []Val, in ssa.Instruction, pos token.Pos) ([]Val, bool) {
		fr.u.reg.declFun("hex_string", "Slice", sStr)
		return []Val{{sx("hex_string", args[0].T), types.Typ[types.String], ""}}, true
	}
	models["encoding/json.Marshal"] = func(fr *Frame, st *State, args []Val, in ssa.Instruction, pos token.Pos) ([]Val, bool) {
		u := fr.u
		// the encoder is outside the proof: it only reads its argument; the bytes it returns are remembered in the ghost $lastjson
		tt := in.(ssa.Value).Type().(*types.Tuple)
		arr := u.alloc(st)
		n := u.fresh("jsonlen", sInt)
		u.assume(st, sx("<=", "0", n))
		b := Val{u.define("json", sSlice, sx("mkslice", arr, "0", n, n)), tt.At(0).Type(), ""}
		e := u.freshVal(st, "jsonerr", tt.At(1).Type())
		hn, hs := u.elemHeapName(types.Typ[types.Uint8]), "(Array Int (Array Int Int))"
		h := u.hget(st, hn, hs)
		u.hset(st, "$lastjson", sStr, u.bytesStr(sel(h, sx("s_arr", b.T)), sx("s_off", b.T), sx("s_len", b.T)))
		u.note("library model: encoding/json.Marshal (uninterpreted bytes, recorded in $lastjson)")
		return []Val{b, e}, true
	}
	models["encoding/json.Unmarshal"] = func(fr *Frame, st *State, args []Val, in ssa.Instruction, pos token.Pos) ([]Val, bool) {
		u := fr.u
		// the decoder is outside the proof: it overwrites the struct its second argument points to with arbitrary well-formed
		// values. Only flat targets are modelled (no pointer or map fields it could write through).
		ci, ok := in.(ssa.CallInstruction)
		if !ok || len(ci.Common().Args) != 2 {
			return nil, false
		}
		mi, ok := ci.Common().Args[1].(*ssa.MakeInterface)
		if !ok {
			return nil, false
		}
		pt, ok := mi.X.Type().Underlying().(*types.Pointer)
		if !ok {
			return nil, false
		}
		stt, ok := pt.Elem().Underlying().(*types.Struct)
		if !ok {
			return nil, false
		}
		var flat func(t types.Type) bool
		flat = func(t types.Type) bool {
			switch x := t.Underlying().(type) {
			case *types.Basic:
				return true
			case *types.Slice:
				return flat(x.Elem())
			case *types.Struct:
				for i := 0; i < x.NumFields(); i++ {
					if !flat(x.Field(i).Type()) {
						return false
					}
				}
				return true
			}
			return false
		}
		if !flat(pt.Elem()) {
			return nil, false
		}
		ref := fr.val(st, mi.X)
		for i := 0; i < stt.NumFields(); i++ {
			hn, hs, ft := fieldHeap(u, pt.Elem(), i)
			u.markWrite(hn, ref.T)
			u.hset(st, hn, hs, store(u.hget(st, hn, hs), ref.T, u.freshVal(st, "decoded", ft).T))
		}
		u.note("library model: encoding/json.Unmarshal (target struct havocked, flat targets only)")
		return []Val{u.freshVal(st, "jsonerr", in.(ssa.Value).Type())}, true
	}
	models["reflect.DeepEqual"] = func(fr *Frame, st *State, args []Val, in ssa.Instruction, pos token.Pos) ([]Val, bool) {
		u := fr.u
		r := u.fresh("deepequal", sBool)
		u.assume(st, implies(eq(args[0].T, args[1].T), r))
		u.note("reflect.DeepEqual: identical values are equal; otherwise undetermined")
		return []Val{{r, types.Typ[types.Bool], ""}}, true
	}
}

func (u *Unit) declItoa() {
	u.reg.declFun("itoa", "Int", sStr)
	u.reg.declFun("atoi", "Str", sInt)
	u.reg.declFun("atoi_ok", "Str", sBool)
	u.reg.axiom("(assert (forall ((n Int)) (! (and (atoi_ok (itoa n)) (= (atoi (itoa n)) n) (>= (slen (itoa n)) 1)) :pattern ((itoa n)))))")
	u.reg.axiom("(assert (forall ((n Int)) (! (=> (and (<= 0 n) (< n 10)) (= (slen (itoa n)) 1)) :pattern ((itoa n)))))")
	u.reg.axiom("(assert (forall ((n Int)) (! (=> (>= n 10) (>= (slen (itoa n)) 2)) :pattern ((itoa n)))))")
	u.reg.axiom("(assert (forall ((n Int)) (! (=> (< n 0) (>= (slen (itoa n)) 2)) :pattern ((itoa n)))))")
}

// lockKey: index of a mutex in the ghost lockset. Mutex and RWMutex objects get disjoint keys (references are untyped
// integers, so two objects of different types may carry the same number).
func lockKey(a string, kind int) string {
	return fmt.Sprintf("(+ (* 2 %s) %d)", a, kind)
}

func lockModel(op string, kind int) modelFn {
	return func(fr *Frame, st *State, args []Val, in ssa.Instruction, pos token.Pos) ([]Val, bool) {
		u := fr.u
		a := lockKey(args[0].T, kind)
		l := u.hget(st, "$lock", lockSort)
		cur := sel(l, a)
		switch op {
		case "lock":
			u.check(fr, st, "lock", "", eq(cur, "0"), "Lock of a mutex this goroutine already holds (self-deadlock)", pos, nil)
			u.hset(st, "$lock", lockSort, store(l, a, "(- 1)"))
		case "unlock":
			u.check(fr, st, "lock", "", eq(cur, "(- 1)"), "Unlock of a mutex not write-held by this goroutine", pos, nil)
			u.hset(st, "$lock", lockSort, store(l, a, "0"))
		case "rlock":
			u.check(fr, st, "lock", "", sx(">=", cur, "0"), "RLock while holding the write lock (self-deadlock)", pos, nil)
			u.hset(st, "$lock", lockSort, store(l, a, sx("+", cur, "1")))
		case "runlock":
			u.check(fr, st, "lock", "", sx(">", cur, "0"), "RUnlock of a mutex not read-held by this goroutine", pos, nil)
			u.hset(st, "$lock", lockSort, store(l, a, sx("-", cur, "1")))
		}
		return nil, true
	}
}

// closurePred symbolically evaluates a pure, loop-free, single-argument closure on term x and returns its boolean result term.
func (fr *Frame) closurePred(st *State, ci *closInfo, x Val) (string, bool) {
	return fr.closureTerm(st, ci, []Val{x})
}

// closureTerm: the value a pure, loop-free closure returns for the given arguments, as a term.
func (fr *Frame) closureTerm(st *State, ci *closInfo, xs []Val) (string, bool) {
	u := fr.u
	fn := ci.fn
	dbg := func(why string) {
		if os.Getenv("GOWP_DEBUG_PURE") != "" {
			fmt.Fprintln(os.Stderr, "closureTerm", fn.Name(), "fails:", why)
		}
	}
	if fn.Blocks == nil || len(findLoops(fn)) > 0 || len(fn.Params) != len(xs) || instrCount(fn) > 80 {
		dbg("shape")
		return "", false
	}
	savedPure, savedBody, savedObls, savedFail := u.pure, len(u.body), len(u.obls), u.pureFail
	u.pure++
	u.pureFail = false
	sub := u.newFrame(fn, fr)
	for i, x := range xs {
		sub.vals[fn.Params[i]] = x
	}
	for i, fv := range fn.FreeVars {
		if i < len(ci.bindings) {
			sub.vals[fv] = ci.bindings[i]
		}
	}
	s2 := st.clone()
	s2.pc = "true"
	outer := u.sinks
	u.sinks = []map[string]bool{{}}
	sub.run(s2)
	wrote := u.sinks[0]
	u.sinks = outer
	failed := u.pureFail
	u.pure, u.pureFail = savedPure, savedFail
	if failed {
		dbg("needs a fresh value")
		return "", false
	}
	u.body = u.body[:savedBody]
	u.obls = u.obls[:savedObls]
	for k := range wrote {
		if !isLocalName(strings.TrimPrefix(k, "!")) && k != "$alloc" {
			dbg("writes " + k)
			return "", false // not pure
		}
	}
	if len(sub.rets) == 0 {
		dbg("no return")
		return "", false
	}
	term := sub.rets[len(sub.rets)-1].vals[0].T
	for k := len(sub.rets) - 2; k >= 0; k-- {
		term = ite(sub.rets[k].st.pc, sub.rets[k].vals[0].T, term)
	}
	return term, true
}

// closureWrites runs a (possibly impure) closure once symbolically, discarding everything but the set of heap variables
// it may write (nil when that set is unknown). Used to model library functions that call an impure callback any number
// of times: the written variables are havocked, the result is left undetermined.
func (fr *Frame) closureWrites(st *State, ci *closInfo) map[string]bool {
	u := fr.u
	fn := ci.fn
	if fn.Blocks == nil || instrCount(fn) > 300 {
		return nil
	}
	for _, f := range u.inlineStack {
		if f == fn {
			return nil
		}
	}
	savedPure, savedBody, savedObls, savedFail := u.pure, len(u.body), len(u.obls), u.pureFail
	u.pure++
	sub := u.newFrame(fn, fr)
	s2 := st.clone()
	s2.pc = "true"
	for _, p := range fn.Params {
		sub.vals[p] = Val{T: "0", Ty: p.Type()}
		switch u.sortOf(p.Type()) {
		case sStr:
			sub.vals[p] = Val{T: u.reg.strLit(""), Ty: p.Type()}
		case sAny:
			sub.vals[p] = Val{T: "A_nil", Ty: p.Type()}
		case sSlice:
			sub.vals[p] = Val{T: "(mkslice 0 0 0 0)", Ty: p.Type()}
		case sBool:
			sub.vals[p] = Val{T: "false", Ty: p.Type()}
		case sReal:
			sub.vals[p] = Val{T: "0.0", Ty: p.Type()}
		}
		if _, isStruct := p.Type().Underlying().(*types.Struct); isStruct && !isTimeType(p.Type()) {
			sub.vals[p] = Val{T: u.zero(p.Type()), Ty: p.Type()}
		}
	}
	for i, fv := range fn.FreeVars {
		if i < len(ci.bindings) {
			sub.vals[fv] = ci.bindings[i]
		}
	}
	u.inlineStack = append(u.inlineStack, fn)
	outer := u.sinks
	u.sinks = []map[string]bool{{}}
	savedFloor := u.freshFloor
	u.freshFloor = u.allocSeq + 1
	if u.freshFloor == 1 {
		u.freshFloor = 1
	}
	sub.run(s2)
	u.freshFloor = savedFloor
	wrote := u.sinks[0]
	u.sinks = outer
	u.inlineStack = u.inlineStack[:len(u.inlineStack)-1]
	u.pure, u.pureFail = savedPure, savedFail
	u.body = u.body[:savedBody]
	u.obls = u.obls[:savedObls]
	if wrote["*"] {
		return nil
	}
	return wrote
}

// ---------- container/heap (assumed contract: only the heap.Interface methods are called, with in-range indices) ----------

func (fr *Frame) heapRecv(st *State, in ssa.Instruction) (ssa.Value, types.Type, bool) {
	call := in.(ssa.CallInstruction).Common()
	mi, ok := call.Args[0].(*ssa.MakeInterface)
	if !ok {
		return nil, nil, false
	}
	return mi.X, mi.X.Type(), true
}

func (fr *Frame) methodOf(t types.Type, name string) *ssa.Function {
	ms := fr.u.eng.prog.MethodSets.MethodSet(t)
	for i := 0; i < ms.Len(); i++ {
		if ms.At(i).Obj().Name() == name {
			return fr.u.eng.prog.MethodValue(ms.At(i))
		}
	}
	return nil
}

// heapSwaps models an arbitrary sequence of h.Swap(i,j) calls with in-range indices: the locations Swap may modify
// are havocked, every data-structure invariant Swap preserves is required before and assumed after, and the slice
// header fields Swap leaves alone stay as they are (Swap's frame is checked on Swap itself).
func (fr *Frame) heapSwaps(st *State, recv Val, rt types.Type, pos token.Pos, hi string) bool {
	u := fr.u
	swap := fr.methodOf(rt, "Swap")
	if swap == nil {
		return false
	}
	spec := u.eng.specFor(swap)
	if spec == nil || !spec.HasMod {
		return false
	}
	env := map[string]Val{swap.Params[0].Name(): recv, "$hi": {T: hi, Ty: tIntT}}
	for _, p := range swap.Params[1:] {
		env[p.Name()] = Val{T: sx("-", hi, "1"), Ty: tIntT} // any index below $hi: makes the guards of seq-* clauses true
	}
	ctx := &specCtx{fr: fr, cur: st, old: st, env: env, pkg: swap.Pkg.Pkg}
	if err := fr.callSiteInvs(st, st, spec, swap, env, true, pos); err != nil {
		u.failed = err.Error()
		return false
	}
	old := st.clone()
	// only targets that do not mention the index parameters can be resolved here
	mts, err := u.resolveModifies(spec, ctx)
	if err != nil {
		u.failed = err.Error()
		return false
	}
	for _, mt := range mts {
		if mt.heap == "*" {
			u.havocAll(st, "heap operation: Swap modifies *")
			continue
		}
		if mt.idx == "" {
			u.hget(st, mt.heap, mt.hsort)
			u.havocName(st, mt.heap)
		} else {
			h := u.hget(st, mt.heap, mt.hsort)
			nv := u.fresh(mt.heap+"_at", elemSortOfArray(mt.hsort))
			if hi, ok := u.heapInfo[mt.heap]; ok && !u.discovery && hi.levels == 2 {
				if w := u.wfVal("(select "+nv+" k)", hi.elemTy, u.hget(st, "$alloc", sInt)); w != "true" {
					u.assumeGlobal(fmt.Sprintf("(forall ((k %s)) (! %s :pattern ((select %s k))))", hi.keySort, w, nv))
				}
			}
			u.hset(st, mt.heap, mt.hsort, store(h, mt.idx, nv))
		}
	}
	if err := fr.callSiteInvs(st, old, spec, swap, env, false, pos); err != nil {
		u.failed = err.Error()
		return false
	}
	// clauses labelled seq-*: relations between the old and the new state that are reflexive and transitive, hence hold
	// for every sequence of swaps whose indices are below $hi (each is proved for one Swap on Swap's own contract)
	for _, cl := range spec.Ensures {
		if strings.HasPrefix(cl.Label, "seq-") {
			t, err := u.specBool(cl.Expr, &specCtx{fr: fr, cur: st, old: old, env: env, pkg: swap.Pkg.Pkg})
			if err != nil {
				u.failed = fmt.Sprintf("%s:%d: %v", cl.File, cl.Line, err)
				return false
			}
			u.assume(st, t)
		}
	}
	return true
}

func initHeapModels() {
	lenOf := func(fr *Frame, st *State, recv Val, rt types.Type, in ssa.Instruction, pos token.Pos) (string, bool) {
		lf := fr.methodOf(rt, "Len")
		if lf == nil || fr.u.eng.specFor(lf) == nil {
			return "", false
		}
		rs := fr.applyContract(st, fr.u.eng.specFor(lf), lf, []Val{recv}, in, pos, lf.Signature)
		return rs[0].T, true
	}
	models["container/heap.Init"] = func(fr *Frame, st *State, args []Val, in ssa.Instruction, pos token.Pos) ([]Val, bool) {
		x, rt, ok := fr.heapRecv(st, in)
		if !ok {
			return nil, false
		}
		recv := fr.val(st, x)
		n, ok := lenOf(fr, st, recv, rt, in, pos)
		if !ok {
			return nil, false
		}
		return nil, fr.heapSwaps(st, recv, rt, pos, n)
	}
	models["container/heap.Fix"] = func(fr *Frame, st *State, args []Val, in ssa.Instruction, pos token.Pos) ([]Val, bool) {
		x, rt, ok := fr.heapRecv(st, in)
		if !ok {
			return nil, false
		}
		recv := fr.val(st, x)
		n, ok := lenOf(fr, st, recv, rt, in, pos)
		if !ok {
			return nil, false
		}
		fr.u.check(fr, st, "pre", "heap.Fix.index", and(sx("<=", "0", args[1].T), sx("<", args[1].T, n)), "heap.Fix index within [0, Len())", pos, nil)
		return nil, fr.heapSwaps(st, recv, rt, pos, n)
	}
	models["container/heap.Push"] = func(fr *Frame, st *State, args []Val, in ssa.Instruction, pos token.Pos) ([]Val, bool) {
		x, rt, ok := fr.heapRecv(st, in)
		if !ok {
			return nil, false
		}
		recv := fr.val(st, x)
		pf := fr.methodOf(rt, "Push")
		if pf == nil || fr.u.eng.specFor(pf) == nil {
			return nil, false
		}
		fr.applyContract(st, fr.u.eng.specFor(pf), pf, []Val{recv, args[1]}, in, pos, pf.Signature)
		n, ok := lenOf(fr, st, recv, rt, in, pos)
		if !ok {
			return nil, false
		}
		return nil, fr.heapSwaps(st, recv, rt, pos, n)
	}
	popLike := func(withIndex bool) modelFn {
		return func(fr *Frame, st *State, args []Val, in ssa.Instruction, pos token.Pos) ([]Val, bool) {
			x, rt, ok := fr.heapRecv(st, in)
			if !ok {
				return nil, false
			}
			recv := fr.val(st, x)
			n, ok := lenOf(fr, st, recv, rt, in, pos)
			if !ok {
				return nil, false
			}
			if withIndex {
				fr.u.check(fr, st, "pre", "heap.Remove.index", and(sx("<=", "0", args[1].T), sx("<", args[1].T, n)), "heap.Remove index within [0, Len())", pos, nil)
			} else {
				fr.u.check(fr, st, "pre", "heap.Pop.nonempty", sx(">", n, "0"), "heap.Pop on a non-empty heap", pos, nil)
			}
			// container/heap: Pop = Swap(0, n-1); down(0, n-1); h.Pop().  Remove(i) = Swap(i, n-1) when i != n-1; fix-ups below n-1; h.Pop()
			idx := "0"
			if withIndex {
				idx = args[1].T
			}
			last := fr.u.define("heap_last", sInt, sx("-", n, "1"))
			sf := fr.methodOf(rt, "Swap")
			if sf == nil || fr.u.eng.specFor(sf) == nil {
				return nil, false
			}
			swapped := st.clone()
			swapped.pc = fr.u.define("pc_heapswap", sBool, and(st.pc, not(eq(idx, last))))
			fr.applyContract(swapped, fr.u.eng.specFor(sf), sf, []Val{recv, {T: idx, Ty: tIntT}, {T: last, Ty: tIntT}}, in, pos, sf.Signature)
			same := st.clone()
			same.pc = fr.u.define("pc_heapnoswap", sBool, and(st.pc, eq(idx, last)))
			m := fr.mergeStates(fr.curBlk, []*State{swapped, same}, []string{swapped.pc, same.pc})
			st.heap, st.epoch = m.heap, m.epoch
			if !fr.heapSwaps(st, recv, rt, pos, last) {
				return nil, false
			}
			pf := fr.methodOf(rt, "Pop")
			if pf == nil || fr.u.eng.specFor(pf) == nil {
				return nil, false
			}
			return fr.applyContract(st, fr.u.eng.specFor(pf), pf, []Val{recv}, in, pos, pf.Signature), true
		}
	}
	models["container/heap.Pop"] = popLike(false)
	models["container/heap.Remove"] = popLike(true)
	// slices.DeleteFunc(s, del): in-place filter keeping order; result shares s's backing array
	models["slices.DeleteFunc"] = func(fr *Frame, st *State, args []Val, in ssa.Instruction, pos token.Pos) ([]Val, bool) {
		u := fr.u
		s := args[0]
		slt, ok := s.Ty.Underlying().(*types.Slice)
		if !ok {
			return nil, false
		}
		call := in.(ssa.CallInstruction).Common()
		ci := fr.clos[call.Args[1]]
		if ci == nil {
			return nil, false
		}
		es := u.sortOf(slt.Elem())
		hn, hs := u.elemHeapName(slt.Elem()), "(Array Int (Array Int "+es+"))"
		h := u.hget(st, hn, hs)
		oldAt := func(i string) string { return sel(sel(h, sx("s_arr", s.T)), u.sidx(s.T, i)) }
		pOld, ok1 := fr.closurePred(st, ci, Val{oldAt("j"), slt.Elem(), ""})
		if !ok1 {
			return nil, false
		}
		u.note("closure passed to slices.DeleteFunc is assumed not to panic")
		n := u.fresh("delfunc_len", sInt)
		na := u.fresh("delfunc_arr", "(Array Int "+es+")")
		u.assume(st, and(sx("<=", "0", n), sx("<=", n, sx("s_len", s.T))))
		newAt := func(i string) string { return sel(na, u.sidx(s.T, i)) }
		// every kept element stays, every deleted one goes; relative order kept. Stated with explicit witness functions that are
		// inverse to each other (src: new position -> old position, dst: old position of a kept element -> new position), so
		// that instantiating one direction does not create fresh positions for the other (no matching loop)
		rT := sx("mkslice", sx("s_arr", s.T), sx("s_off", s.T), n, sx("s_cap", s.T))
		src := u.fresh("delfunc_src", "(Array Int Int)")
		dst := u.fresh("delfunc_dst", "(Array Int Int)")
		pNew, _ := fr.closurePred(st, ci, Val{newAt("i"), slt.Elem(), ""})
		u.assume(st, fmt.Sprintf("(forall ((i Int)) (! (=> (and (<= 0 i) (< i %s)) (and (not %s) (<= i (select %s i)) (< (select %s i) (s_len %s)) (= %s %s) (= (select %s (select %s i)) i))) :pattern ((sidx %s i)) :pattern ((sidx %s i))))",
			n, pNew, src, src, s.T, newAt("i"), oldAt("(select "+src+" i)"), dst, src, s.T, rT))
		u.assume(st, fmt.Sprintf("(forall ((j Int)) (! (=> (and (<= 0 j) (< j (s_len %s)) (not %s)) (and (<= 0 (select %s j)) (< (select %s j) %s) (<= (select %s j) j) (= %s %s) (= (select %s (select %s j)) j) (= (sidx %s (select %s j)) (sidx %s (select %s j))))) :pattern ((sidx %s j))))",
			s.T, pOld, dst, dst, n, dst, newAt("(select "+dst+" j)"), oldAt("j"), src, dst, rT, dst, s.T, dst, s.T))
		u.assume(st, fmt.Sprintf("(forall ((i Int) (k Int)) (! (=> (and (<= 0 i) (< i k) (< k %s)) (< (select %s i) (select %s k))) :pattern ((select %s i) (select %s k))))", n, src, src, src, src))
		u.assume(st, fmt.Sprintf("(=> (forall ((j Int)) (=> (and (<= 0 j) (< j (s_len %s))) (not %s))) (= %s (s_len %s)))", s.T, pOld, n, s.T))
		u.hset(st, hn, hs, store(h, sx("s_arr", s.T), na))
		if hi, ok := u.heapInfo[hn]; ok && !u.discovery {
			if w := u.wfVal("(select "+na+" k)", hi.elemTy, u.hget(st, "$alloc", sInt)); w != "true" {
				u.assumeGlobal(fmt.Sprintf("(forall ((k Int)) (! %s :pattern ((select %s k))))", w, na))
			}
		}
		r := u.define("delfunc", sSlice, rT)
		return []Val{{r, s.Ty, ""}}, true
	}
}

// ---------- sync/atomic: one ghost cell per atomic variable address ----------

func initAtomicModels() {
	const hn, hs = "$atomic", "(Array Int Int)"
	load := func(res types.Type, isBool bool) modelFn {
		return func(fr *Frame, st *State, args []Val, in ssa.Instruction, pos token.Pos) ([]Val, bool) {
			v := sel(fr.u.hget(st, hn, hs), args[0].T)
			if isBool {
				return []Val{{sx("distinct", v, "0"), res, ""}}, true
			}
			t := fr.u.define("atomic_load", sInt, v)
			fr.u.assume(st, fr.u.facts(st, t, res))
			return []Val{{t, res, ""}}, true
		}
	}
	storeM := func(isBool bool) modelFn {
		return func(fr *Frame, st *State, args []Val, in ssa.Instruction, pos token.Pos) ([]Val, bool) {
			v := args[1].T
			if isBool {
				v = ite(v, "1", "0")
			}
			fr.u.hset(st, hn, hs, store(fr.u.hget(st, hn, hs), args[0].T, v))
			return nil, true
		}
	}
	add := func(res types.Type) modelFn {
		return func(fr *Frame, st *State, args []Val, in ssa.Instruction, pos token.Pos) ([]Val, bool) {
			h := fr.u.hget(st, hn, hs)
			nv := fr.u.define("atomic_add", sInt, sx("+", sel(h, args[0].T), args[1].T))
			fr.u.hset(st, hn, hs, store(h, args[0].T, nv))
			return []Val{{nv, res, ""}}, true
		}
	}
	tb, ti64, tu64 := types.Typ[types.Bool], types.Typ[types.Int64], types.Typ[types.Uint64]
	models["(*sync/atomic.Bool).Load"] = load(tb, true)
	models["(*sync/atomic.Bool).Store"] = storeM(true)
	models["(*sync/atomic.Int64).Load"] = load(ti64, false)
	models["(*sync/atomic.Int64).Store"] = storeM(false)
	models["(*sync/atomic.Int64).Add"] = add(ti64)
	models["(*sync/atomic.Uint64).Load"] = load(tu64, false)
	models["(*sync/atomic.Uint64).Store"] = storeM(false)
	models["(*sync/atomic.Uint64).Add"] = add(tu64)
}

// calleeName: the name contracts use to refer to a call site: the function or method name, or the field name for a call
// through a function-valued struct field.
func calleeName(c *ssa.CallCommon) string {
	if c.IsInvoke() {
		return c.Method.Name()
	}
	switch v := c.Value.(type) {
	case *ssa.Function:
		return v.Name()
	case *ssa.Builtin:
		return ""
	case *ssa.MakeClosure:
		return v.Fn.Name()
	case *ssa.Field:
		return v.X.Type().Underlying().(*types.Struct).Field(v.Field).Name()
	case *ssa.UnOp:
		if fa, ok := v.X.(*ssa.FieldAddr); ok {
			return fa.X.Type().Underlying().(*types.Pointer).Elem().Underlying().(*types.Struct).Field(fa.Field).Name()
		}
	}
	return ""
}
