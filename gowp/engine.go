package main

// Engine: loading /repo, building SSA, reading contract files, verifying one function (unit).

import (
	"bufio"
	"fmt"
	"go/token"
	"go/types"
	"os"
	"path/filepath"
	"sort"
	"strconv"
	"strings"
	"sync"

	"golang.org/x/tools/go/packages"
	"golang.org/x/tools/go/ssa"
	"golang.org/x/tools/go/ssa/ssautil"
)

type Engine struct {
	repo          string
	module        string
	fset          *token.FileSet
	prog          *ssa.Program
	pkgs          []*packages.Package
	allPkgs       map[string]*packages.Package
	contracts     *Contracts
	funcsByKey    map[string]*ssa.Function
	funcsByShort  map[string]*ssa.Function
	srcCache      map[string][]string
	srcMu         sync.Mutex
	timeT         types.Type
	contractFiles []string
}

func loadEngine(repo string, patterns []string) (*Engine, error) {
	e := &Engine{repo: repo, module: "github.com/echovault/sugardb", funcsByKey: map[string]*ssa.Function{}, funcsByShort: map[string]*ssa.Function{},
		srcCache: map[string][]string{}, allPkgs: map[string]*packages.Package{}}
	e.fset = token.NewFileSet()
	cfg := &packages.Config{Mode: packages.LoadAllSyntax, Dir: repo, Fset: e.fset, BuildFlags: []string{"-tags=verif"},
		Env: append(os.Environ(), "GOFLAGS=-mod=mod", "GOPROXY=off", "GOSUMDB=off", "GOTOOLCHAIN=local")}
	pkgs, err := packages.Load(cfg, patterns...)
	if err != nil {
		return nil, err
	}
	nerr := 0
	packages.Visit(pkgs, nil, func(p *packages.Package) {
		e.allPkgs[p.PkgPath] = p
		if strings.HasPrefix(p.PkgPath, e.module) {
			for _, er := range p.Errors {
				fmt.Fprintln(os.Stderr, "load error:", er)
				nerr++
			}
		}
	})
	if nerr > 0 {
		return nil, fmt.Errorf("%d errors loading %s (the tree must compile)", nerr, repo)
	}
	e.pkgs = pkgs
	prog, _ := ssautil.AllPackages(pkgs, ssa.GlobalDebug|ssa.InstantiateGenerics)
	prog.Build()
	e.prog = prog
	for fn := range ssautil.AllFunctions(prog) {
		if fn.Pkg == nil || !strings.HasPrefix(fn.Pkg.Pkg.Path(), e.module) {
			continue
		}
		e.funcsByKey[e.funcKey(fn)] = fn
		e.funcsByShort[e.funcKeyShort(fn)] = fn
	}
	if tp, ok := e.allPkgs["time"]; ok {
		e.timeT = tp.Types.Scope().Lookup("Time").Type()
	}
	// contracts
	e.contracts = newContracts()
	var dirs []string
	for path, p := range e.allPkgs {
		if strings.HasPrefix(path, e.module) && len(p.GoFiles) > 0 {
			dirs = append(dirs, path)
		}
	}
	sort.Strings(dirs)
	for _, path := range dirs {
		p := e.allPkgs[path]
		f := filepath.Join(filepath.Dir(p.GoFiles[0]), "verif_contracts.go")
		data, err := os.ReadFile(f)
		if err != nil {
			continue
		}
		e.contractFiles = append(e.contractFiles, f)
		var lines []rawLine
		for i, l := range strings.Split(string(data), "\n") {
			t := strings.TrimSpace(l)
			if strings.HasPrefix(t, "//@") {
				lines = append(lines, rawLine{strings.TrimPrefix(t, "//@"), i + 1})
			}
		}
		if err := parseContractText(e.contracts, path, strings.TrimPrefix(f, repo+"/"), lines); err != nil {
			return nil, err
		}
	}
	// every contract must name an existing function
	for _, k := range e.contracts.Order {
		if _, ok := e.funcsByKey[k]; !ok {
			fs := e.contracts.Funcs[k]
			if strings.HasPrefix(fs.Name, "(") && strings.Contains(k, ").") && !strings.HasPrefix(fs.Name, "(*") {
				continue // interface method contract
			}
			if fs.Flags["functype"] || !strings.HasPrefix(fs.Pkg, e.module) {
				continue // function types, and trusted contracts for functions of third-party packages
			}
			return nil, fmt.Errorf("%s:%d: contract for unknown function %s", fs.File, fs.Line, k)
		}
	}
	return e, nil
}

func (e *Engine) funcKey(fn *ssa.Function) string {
	if fn.Pkg == nil {
		return fn.String()
	}
	return fn.Pkg.Pkg.Path() + "." + fn.RelString(fn.Pkg.Pkg)
}

func (e *Engine) funcKeyShort(fn *ssa.Function) string {
	if fn.Pkg == nil {
		return fn.String()
	}
	return fn.Pkg.Pkg.Name() + "." + fn.RelString(fn.Pkg.Pkg)
}

func (e *Engine) specFor(fn *ssa.Function) *FuncSpec {
	if fn.Pkg == nil {
		return nil
	}
	return e.contracts.Funcs[e.funcKey(fn)]
}

// rootSpecFor: the contract a function is verified against as a unit root: its own, else the requires clauses of a
// "roots" function-type contract whose signature it has (a handler is only ever called through a HandlerFunc value).
func (e *Engine) rootSpecFor(fn *ssa.Function) *FuncSpec {
	own := e.specFor(fn)
	if fn.Pkg == nil || fn.Signature.Recv() != nil {
		return own
	}
	for key, fs := range e.contracts.Funcs {
		if !fs.Flags["functype"] || !fs.Flags["roots"] {
			continue
		}
		i := strings.Index(key, ".functype.")
		if i < 0 {
			continue
		}
		tp := e.typesPkg(key[:i])
		if tp == nil {
			continue
		}
		obj := tp.Scope().Lookup(key[i+len(".functype."):])
		if obj == nil {
			continue
		}
		sig, ok := obj.Type().Underlying().(*types.Signature)
		if !ok || !types.Identical(sig, fn.Signature) {
			continue
		}
		if own != nil {
			// the function's own contract, with the function type's preconditions in front
			if own.Flags["trusted"] {
				return own
			}
			merged := *own
			merged.Requires = append(append([]*Clause{}, fs.Requires...), own.Requires...)
			return &merged
		}
		return &FuncSpec{Name: fn.Name(), Pkg: fn.Pkg.Pkg.Path(), Props: fs.Props, Flags: map[string]bool{"derived": true}, Requires: fs.Requires,
			Assumes: fs.Assumes, Loops: map[int]*LoopSpec{}, File: fs.File, Line: fs.Line}
	}
	return own
}

func (e *Engine) timeType() types.Type { return e.timeT }

func (e *Engine) typesPkg(path string) *types.Package {
	if p, ok := e.allPkgs[path]; ok {
		return p.Types
	}
	return nil
}

func (e *Engine) pkgByName(name string, from *types.Package) *types.Package {
	if from != nil {
		for _, imp := range from.Imports() {
			if imp.Name() == name {
				return imp
			}
		}
		if from.Name() == name {
			return from
		}
	}
	var cands []string
	for path, p := range e.allPkgs {
		if p.Types != nil && p.Types.Name() == name {
			cands = append(cands, path)
		}
	}
	if len(cands) == 0 {
		return nil
	}
	sort.Slice(cands, func(i, j int) bool {
		ri, rj := strings.HasPrefix(cands[i], e.module), strings.HasPrefix(cands[j], e.module)
		if ri != rj {
			return ri
		}
		if len(cands[i]) != len(cands[j]) {
			return len(cands[i]) < len(cands[j])
		}
		return cands[i] < cands[j]
	})
	return e.allPkgs[cands[0]].Types
}

func (e *Engine) sourceLine(file string, line int) string {
	e.srcMu.Lock()
	defer e.srcMu.Unlock()
	ls, ok := e.srcCache[file]
	if !ok {
		f, err := os.Open(file)
		if err == nil {
			sc := bufio.NewScanner(f)
			sc.Buffer(make([]byte, 1<<20), 1<<20)
			for sc.Scan() {
				ls = append(ls, sc.Text())
			}
			f.Close()
		}
		e.srcCache[file] = ls
	}
	if line-1 < len(ls) && line >= 1 {
		return ls[line-1]
	}
	return ""
}

// ---------- unit verification ----------

type UnitResult struct {
	Func    string
	Obls    []*Obligation
	Notes   []string
	Failed  string
	Insts   int
	Prelude string
	Body    []string
}

func (e *Engine) verifyUnit(fn *ssa.Function, classes map[string]bool) (res *UnitResult) {
	spec := e.rootSpecFor(fn)
	u := &Unit{eng: e, root: fn, spec: spec, loopWrites: map[string]map[string]bool{}, classes: classes}
	res = &UnitResult{Func: e.funcKey(fn)}
	defer func() {
		if r := recover(); r != nil {
			res.Failed = fmt.Sprintf("engine panic: %v", r)
			res.Obls = nil
			if os.Getenv("GOWP_DEBUG") != "" {
				panic(r)
			}
		}
	}()
	// pass 0: discovery (syntactic write sets of loops, nothing emitted); pass 1 (only when a loop's write set contains
	// an unknown effect): same as the real pass but obligations are discarded - paths the precondition excludes are
	// pruned, which refines the write sets (still an over-approximation: reachability is decided under the coarser
	// havoc of pass 0); pass 2: the real pass.
	for pass := 0; pass < 3; pass++ {
		if pass == 1 {
			star := false
			for _, ws := range u.loopWrites {
				if ws["*"] {
					star = true
				}
			}
			if !star {
				continue
			}
		}
		u.discovery = pass == 0
		u.record = pass < 2
		u.noObls = pass == 1
		u.newWrites = map[string]map[string]bool{}
		u.reg = newRegistry()
		u.body = nil
		u.obls = nil
		u.nfresh = 0
		u.nextEpoch = 0
		u.notes = map[string]bool{}
		if pass == 0 {
			// name -> sort tables are stable across the passes; the discovery pass fills them for names
			// that a later pass havocs at a loop head before their first use
			u.heapSort = map[string]string{}
			u.mapTags = map[string]*types.Map{}
			u.heapInfo = map[string]heapInfo{}
		}
		u.addrIds = map[string]int{}
		u.mapWFDone = map[string]bool{}
		u.reachCache = map[string]bool{}
		u.sumDone = map[string]bool{}
		u.freshRefs = map[string]int{}
		u.allocSeq, u.freshFloor = 0, 0
		u.oblCount = map[string]int{}
		u.sinks = nil
		u.inlineStack = nil
		u.failed = ""
		u.insts = 0
		u.allowedMods, u.allowedAll = nil, false
		u.runRoot()
		if u.failed != "" {
			break
		}
		if u.record {
			u.loopWrites = u.newWrites
		}
	}
	res.Failed = u.failed
	res.Insts = u.insts
	for n := range u.notes {
		res.Notes = append(res.Notes, n)
	}
	sort.Strings(res.Notes)
	if u.failed != "" {
		return res
	}
	res.Prelude = u.reg.prelude()
	res.Body = u.body
	for _, o := range u.obls {
		var b strings.Builder
		b.WriteString(res.Prelude)
		for _, l := range u.body[:o.bodyLen] {
			b.WriteString(l)
			b.WriteByte('\n')
		}
		b.WriteString("(assert " + o.goal + ")\n(check-sat)\n")
		o.Query = b.String()
	}
	res.Obls = u.obls
	return res
}

func (u *Unit) runRoot() {
	fn := u.root
	st := &State{pc: "true", heap: map[string]string{}}
	a0 := u.hget(st, "$alloc", sInt)
	u.allocEntry = a0
	u.assumeGlobal(sx("<", "0", a0))
	u.reg.axiom("(assert (forall ((s Str)) (! (>= (slen s) 0) :pattern ((slen s)))))")
	u.sidx("(mkslice 0 0 0 0)", "0") // registers the symbol and its defining axiom
	fr := u.newFrame(fn, nil)
	fr.spec = u.spec
	u.rootFrame = fr
	for i, p := range fn.Params {
		v := u.freshVal(st, "p_"+p.Name(), p.Type())
		fr.vals[p] = v
		fr.params = append(fr.params, v)
		if i == 0 && fn.Signature.Recv() != nil {
			if _, isPtr := p.Type().Underlying().(*types.Pointer); isPtr {
				u.assume(st, not(eq(v.T, "0")))
			}
		}
	}
	for i, fv := range fn.FreeVars {
		v := u.freshVal(st, "fv_"+fv.Name(), fv.Type())
		fr.vals[fv] = v
		u.assume(st, not(eq(v.T, "0")))
		if pt, ok := fv.Type().Underlying().(*types.Pointer); ok && effectivelyFinal(fn, i) {
			if fr.pinned == nil {
				fr.pinned = map[*ssa.FreeVar]Val{}
			}
			fr.pinned[fv] = u.freshVal(st, "cap_"+fv.Name(), pt.Elem())
		}
	}
	u.entry = st // provisional: lets baseEnv read captured cells; replaced by a snapshot once the assumptions are in
	env := fr.baseEnv()
	lockFree := true
	if u.spec != nil {
		if u.spec.Flags["lockstate"] {
			lockFree = false
		}
		for _, cl := range u.spec.Requires {
			if strings.Contains(cl.Text, "holds(") {
				lockFree = false
			}
		}
	}
	if lockFree {
		u.assume(st, eq(u.hget(st, "$lock", lockSort), "((as const (Array Int Int)) 0)"))
	}
	if u.spec != nil && !u.discovery {
		ctx := &specCtx{fr: fr, cur: st, old: st, env: env}
		for _, cl := range append(append([]*Clause{}, u.spec.Requires...), u.spec.Assumes...) {
			t, err := u.specBool(cl.Expr, ctx)
			if err != nil {
				u.failed = fmt.Sprintf("%s:%d: %v", cl.File, cl.Line, err)
				return
			}
			u.assume(st, t)
			if cl.Kind == "assumes" {
				u.note("ownership/environment assumption of " + u.spec.Name + ": " + cl.Text)
			}
		}
		if err := u.typeInvs(fr, st, st, env, false, token.NoPos); err != nil {
			u.failed = err.Error()
			return
		}
		if err := u.globalInvs(fr, st, u.spec, fn.Pkg.Pkg.Path(), false, token.NoPos, ""); err != nil {
			u.failed = err.Error()
			return
		}
	}
	u.entry = st.clone()
	// every call-site assertion must have its call site: a call that was dropped from the body takes its assertion with it,
	// which must not pass silently (syntactic count over the function's own instructions)
	if u.spec != nil && !u.discovery {
		counts := map[string]int{}
		for _, b := range fn.Blocks {
			for _, in := range b.Instrs {
				if ci, ok := in.(ssa.CallInstruction); ok {
					if _, isGo := in.(*ssa.Go); isGo {
						continue
					}
					if n := calleeName(ci.Common()); n != "" {
						counts[n]++
					}
				}
			}
		}
		for _, cl := range u.spec.Asserts {
			if !strings.HasPrefix(cl.Kind, "assert@") || cl.Kind == "assert@return" {
				continue
			}
			at := strings.TrimPrefix(cl.Kind, "assert@")
			i := strings.LastIndex(at, "#")
			if i < 0 {
				continue
			}
			n, _ := strconv.Atoi(at[i+1:])
			if counts[at[:i]] <= n {
				u.failed = fmt.Sprintf("%s:%d: call site %s of assertion %s is not in the function (it has %d calls of %s)", cl.File, cl.Line, at, clauseKey(cl), counts[at[:i]], at[:i])
				return
			}
		}
	}
	fr.run(st)
	if u.failed != "" || u.discovery || u.noObls {
		return
	}
	atReturnSeen := map[string]bool{}
	defer func() {
		if u.spec == nil || u.failed != "" {
			return
		}
		for _, cl := range u.spec.Asserts {
			if cl.Kind == "assert@return" && !atReturnSeen[clauseKey(cl)] && !atReturnSeenGlobal(u, cl) {
				u.failed = fmt.Sprintf("%s:%d: assert @return clause %s names variables that are in scope at no return", cl.File, cl.Line, clauseKey(cl))
			}
		}
	}()
	canaryLen := len(u.body) // before the postcondition checks (a failed check is assumed afterwards)
	// returns
	var retPcs []string
	for _, r := range fr.rets {
		if r.st.dead {
			continue
		}
		retPcs = append(retPcs, r.st.pc)
		if u.spec == nil {
			if lockFree {
				u.check(fr, r.st, "lock", "lockset", eq(u.hget(r.st, "$lock", lockSort), u.hget(u.entry, "$lock", lockSort)), "function returns holding exactly the locks it was called with", r.pos, nil)
			}
			continue
		}
		renv := fr.baseEnv()
		u.bindResultNames(renv, u.spec, fn, r.vals)
		ctx := &specCtx{fr: fr, cur: r.st, old: u.entry, env: renv}
		for _, cl := range u.spec.Ensures {
			if strings.HasPrefix(cl.Label, "trusted-") {
				// assumed at call sites, not proved here: reported as an assumption of every property it serves
				u.note("trusted postcondition of " + u.spec.Name + " (not checked): " + cl.Text)
				continue
			}
			t, err := u.specBool(cl.Expr, ctx)
			if err != nil {
				u.failed = fmt.Sprintf("%s:%d: %v", cl.File, cl.Line, err)
				return
			}
			u.check(fr, r.st, "post", clauseKey(cl), t, "postcondition: "+cl.Text, r.pos, cl.Props)
		}
		// assert @return clauses: like postconditions, but they may name the function's local variables (their values at this
		// return); they are obligations of the body only and are not part of what callers may assume
		if r.in != nil {
			lctx := &specCtx{fr: fr, cur: r.st, old: u.entry, env: renv, local: fr.localsAt(r.in)}
			for _, cl := range u.spec.Asserts {
				if cl.Kind != "assert@return" {
					continue
				}
				t, err := u.specBool(cl.Expr, lctx)
				if err != nil {
					if strings.Contains(err.Error(), "unknown identifier") || strings.Contains(err.Error(), " not found") {
						// a return before the variables the clause names are declared: the clause does not apply there
						// (it must apply at one return at least, checked below)
						continue
					}
					u.failed = fmt.Sprintf("%s:%d: %v", cl.File, cl.Line, err)
					return
				}
				atReturnSeen[clauseKey(cl)] = true
				u.check(fr, r.st, "post", "atreturn."+clauseKey(cl), t, "at every return where its variables are in scope: "+cl.Text, r.pos, cl.Props)
			}
		}
		if u.spec.Flags["noalloc"] {
			u.check(fr, r.st, "post", "noalloc", eq(u.hget(r.st, "$alloc", sInt), u.allocEntry), "flag noalloc: the function allocates nothing", r.pos, u.spec.Props)
		}
		if err := u.typeInvs(fr, r.st, u.entry, renv, true, r.pos); err != nil {
			u.failed = err.Error()
			return
		}
		if err := u.globalInvs(fr, r.st, u.spec, fn.Pkg.Pkg.Path(), true, r.pos, "global-inv"); err != nil {
			u.failed = err.Error()
			return
		}
		if u.spec.HasMod {
			u.frameCheck(fr, r.st, env, r.pos)
		}
		if lockFree || u.spec.Flags["lockbalanced"] {
			u.check(fr, r.st, "lock", "lockset", eq(u.hget(r.st, "$lock", lockSort), u.hget(u.entry, "$lock", lockSort)), "function returns holding exactly the locks it was called with", r.pos, u.spec.Props)
		}
	}
	// vacuity canary: some return must be reachable under the precondition
	if len(retPcs) > 0 {
		o := &Obligation{ID: u.eng.funcKeyShort(fn) + "/canary/return-reachable#0", Class: "canary", Func: u.eng.funcKey(fn), Desc: "precondition satisfiable and some return reachable (must be sat)",
			bodyLen: canaryLen, goal: or(retPcs...), unit: u, Canary: true}
		u.obls = append(u.obls, o)
	}
}

// typeInvs assumes (check=false) or checks (check=true) the data-structure invariants named in `preserves`.
func (u *Unit) typeInvs(fr *Frame, st, old *State, env map[string]Val, check bool, pos token.Pos) error {
	if u.spec == nil {
		return nil
	}
	for _, name := range u.spec.Preserves {
		// name is "inv" (receiver's type) or "param.inv"
		target := ""
		if i := strings.Index(name, "."); i >= 0 {
			target, name = name[:i], name[i+1:]
		} else if len(fr.fn.Params) > 0 {
			target = fr.fn.Params[0].Name()
		}
		v, ok := env[target]
		if !ok {
			return fmt.Errorf("%s: preserves %s: no parameter %s", u.spec.Name, name, target)
		}
		t := v.Ty
		if pt, ok := t.Underlying().(*types.Pointer); ok {
			t = pt.Elem()
		}
		n, ok := t.(*types.Named)
		if !ok {
			return fmt.Errorf("%s: preserves %s: parameter type is not named", u.spec.Name, name)
		}
		ti := u.eng.contracts.Types[n.Obj().Pkg().Path()+"."+n.Obj().Name()]
		if ti == nil {
			return fmt.Errorf("%s: no type invariants declared for %s", u.spec.Name, n.Obj().Name())
		}
		found := false
		for _, cl := range ti.Invs {
			if cl.Label != name && name != "all" {
				continue
			}
			found = true
			e2 := map[string]Val{}
			for k, vv := range env {
				e2[k] = vv
			}
			e2["this"] = v
			tm, err := u.specBool(cl.Expr, &specCtx{fr: fr, cur: st, old: old, env: e2, pkg: n.Obj().Pkg()})
			if err != nil {
				return fmt.Errorf("%s:%d: %v", cl.File, cl.Line, err)
			}
			if check {
				props := cl.Props
				if len(props) == 0 {
					props = u.spec.Props
				}
				u.check(fr, st, "type-inv", n.Obj().Name()+"."+clauseKey(cl), tm, "data-structure invariant "+cl.Label+" holds on return: "+cl.Text, pos, props)
			} else {
				u.assume(st, tm)
			}
		}
		if !found {
			return fmt.Errorf("%s: invariant %s not declared for %s", u.spec.Name, name, n.Obj().Name())
		}
	}
	return nil
}

// frameCheck: every heap variable that changed is covered by the modifies clause (fresh objects aside).
// modAllowed resolves the root function's modifies clause once (in the entry state).
func (u *Unit) modAllowed(fr *Frame) (map[string][]string, bool) {
	if u.allowedMods != nil || u.allowedAll {
		return u.allowedMods, !u.allowedAll
	}
	mts, err := u.resolveModifies(u.spec, &specCtx{fr: fr, cur: u.entry, old: u.entry, env: u.rootFrame.baseEnv()})
	if err != nil {
		u.failed = err.Error()
		return nil, false
	}
	allowed := map[string][]string{}
	for _, mt := range mts {
		if mt.heap == "*" {
			u.allowedAll = true
			return nil, false
		}
		if mt.idx == "" {
			allowed[mt.heap] = append(allowed[mt.heap], "*")
		} else {
			allowed[mt.heap] = append(allowed[mt.heap], mt.idx)
		}
	}
	u.allowedMods = allowed
	return allowed, true
}

// frameFormula: heap variable k in state st differs from the entry state only at locations the modifies clause names
// (objects allocated by this activation aside). Returns "" when nothing needs to be shown.
func (u *Unit) frameFormula(st *State, k string, allowed map[string][]string) string {
	if isLocalName(k) || k == "$alloc" || k == "$lock" || k == "$now" || k == "$hashin" {
		return ""
	}
	srt := u.heapSort[k]
	now, was := u.hget(st, k, srt), u.hget(u.entry, k, srt)
	if now == was {
		return ""
	}
	al := allowed[k]
	for _, a := range al {
		if a == "*" {
			return ""
		}
	}
	if strings.HasPrefix(srt, "(Array Int ") && !strings.HasPrefix(k, "$") && !strings.HasPrefix(k, "G_") {
		var ex []string
		for _, a := range al {
			ex = append(ex, not(eq("r", a)))
		}
		return fmt.Sprintf("(forall ((r Int)) (=> %s (= (select %s r) (select %s r))))", and(append([]string{sx("<", "r", u.allocEntry)}, ex...)...), now, was)
	}
	return eq(now, was)
}

// frameCheck: every heap variable that changed is covered by the modifies clause (fresh objects aside).
func (u *Unit) frameCheck(fr *Frame, st *State, env map[string]Val, pos token.Pos) {
	allowed, ok := u.modAllowed(fr)
	if !ok {
		return
	}
	names := map[string]bool{}
	for k := range st.heap {
		names[k] = true
	}
	for k := range u.entry.heap {
		names[k] = true
	}
	if st.epoch != u.entry.epoch {
		for k := range u.heapSort {
			names[k] = true
		}
	}
	var ks []string
	for k := range names {
		ks = append(ks, k)
	}
	sort.Strings(ks)
	for _, k := range ks {
		if phi := u.frameFormula(st, k, allowed); phi != "" {
			u.check(fr, st, "frame", k, phi, "only locations named in modifies change: "+k, pos, u.spec.Props)
		}
	}
}

// globalInvs assumes or checks the package-level heap invariants a contract `uses`.
func (u *Unit) globalInvs(fr *Frame, st *State, spec *FuncSpec, pkgPath string, check bool, pos token.Pos, class string) error {
	for _, name := range spec.Uses {
		cl := u.eng.contracts.Globals[pkgPath+"."+name]
		if cl == nil {
			return fmt.Errorf("%s: unknown global invariant %s", spec.Name, name)
		}
		t, err := u.specBool(cl.Expr, &specCtx{fr: fr, cur: st, old: st, env: map[string]Val{}, pkg: u.eng.typesPkg(pkgPath)})
		if err != nil {
			return fmt.Errorf("%s:%d: %v", cl.File, cl.Line, err)
		}
		if check {
			props := cl.Props
			if len(props) == 0 {
				props = spec.Props
			}
			u.check(fr, st, class, name, t, "global heap invariant "+name+": "+cl.Text, pos, props)
		} else {
			u.assume(st, t)
		}
	}
	return nil
}

// atReturnSeenGlobal: did the assert @return clause produce an obligation at some return?
func atReturnSeenGlobal(u *Unit, cl *Clause) bool {
	for _, o := range u.obls {
		if o.Class == "post" && strings.Contains(o.ID, "/post/atreturn."+clauseKey(cl)+"#") {
			return true
		}
	}
	return false
}
