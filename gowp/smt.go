package main

// SMT-side bookkeeping: sorts for Go types, datatype declarations, heap array names, literals.

import (
	"crypto/sha256"
	"encoding/hex"
	"fmt"
	"go/types"
	"math/big"
	"sort"
	"strings"
)

const (
	sInt   = "Int"
	sBool  = "Bool"
	sReal  = "Real"
	sStr   = "Str"
	sSlice = "Slice"
	sAny   = "Any"
)

// Registry collects every declaration a query needs (the prelude). It is per verification unit.
type Registry struct {
	structs     map[string]*structInfo // sort name -> info
	structOrder []string
	consts      map[string]string // name -> sort   (declare-const)
	constOrder  []string
	funs        map[string]string // name -> full "(declare-fun ...)" line
	funOrder    []string
	strLits     map[string]string // literal value -> const name
	strLitOrder []string
	tids        map[string]int // go type string -> type id
	tidOrder    []string
	axioms      []string
	axiomSet    map[string]bool
	typeOfSort  map[string]types.Type
}

type structInfo struct {
	sort   string
	ctor   string
	fields []string // field names
	fsorts []string
	st     *types.Struct
	named  string
}

func newRegistry() *Registry {
	return &Registry{structs: map[string]*structInfo{}, consts: map[string]string{}, funs: map[string]string{},
		strLits: map[string]string{}, tids: map[string]int{}, axiomSet: map[string]bool{}, typeOfSort: map[string]types.Type{}}
}

func sanitize(s string) string {
	var b strings.Builder
	for _, r := range s {
		switch {
		case r >= 'a' && r <= 'z', r >= 'A' && r <= 'Z', r >= '0' && r <= '9', r == '_':
			b.WriteRune(r)
		case r == '.', r == '/':
			b.WriteRune('_')
		case r == '*':
			b.WriteString("P")
		case r == '[':
			b.WriteString("L")
		case r == ']':
			b.WriteString("R")
		default:
			b.WriteString("_")
		}
	}
	return b.String()
}

func hash8(s string) string {
	h := sha256.Sum256([]byte(s))
	return hex.EncodeToString(h[:4])
}

func shortPkg(p string) string {
	if i := strings.LastIndex(p, "/"); i >= 0 {
		return p[i+1:]
	}
	return p
}

func isTimeType(t types.Type) bool {
	if n, ok := t.(*types.Named); ok {
		o := n.Obj()
		return o.Pkg() != nil && o.Pkg().Path() == "time" && o.Name() == "Time"
	}
	return false
}

func namedKey(n *types.Named) string {
	o := n.Obj()
	if o.Pkg() == nil {
		return o.Name()
	}
	return shortPkg(o.Pkg().Path()) + "_" + o.Name()
}

// structKey names the datatype used for a struct type.
func (r *Registry) structSort(t types.Type) string {
	var name string
	if n, ok := t.(*types.Named); ok {
		name = "S_" + sanitize(namedKey(n))
		if n.TypeArgs() != nil && n.TypeArgs().Len() > 0 {
			name += "_" + hash8(n.String())
		}
	} else {
		name = "S_anon_" + hash8(t.Underlying().String())
	}
	if _, ok := r.structs[name]; ok {
		return name
	}
	st := t.Underlying().(*types.Struct)
	si := &structInfo{sort: name, ctor: "mk_" + name, st: st}
	r.structs[name] = si // register before recursing (pointers make recursion harmless; value recursion is illegal in Go)
	for i := 0; i < st.NumFields(); i++ {
		f := st.Field(i)
		si.fields = append(si.fields, f.Name())
		si.fsorts = append(si.fsorts, r.sortOf(f.Type()))
	}
	r.structOrder = append(r.structOrder, name)
	r.typeOfSort[name] = t
	return name
}

func (si *structInfo) sel(i int) string {
	return si.sort + "_" + sanitize(si.fields[i]) + fmt.Sprint(i)
}

func (r *Registry) sortOf(t types.Type) string {
	if t == nil {
		return sInt
	}
	if isTimeType(t) {
		return sInt
	}
	switch u := t.Underlying().(type) {
	case *types.Basic:
		switch {
		case u.Info()&types.IsBoolean != 0:
			return sBool
		case u.Info()&types.IsInteger != 0:
			return sInt
		case u.Info()&types.IsFloat != 0:
			return sReal
		case u.Info()&types.IsString != 0:
			return sStr
		case u.Kind() == types.UnsafePointer:
			return sInt
		case u.Kind() == types.UntypedNil:
			return sInt
		case u.Info()&types.IsComplex != 0:
			return sReal
		}
		return sInt
	case *types.Pointer, *types.Map, *types.Chan, *types.Signature:
		return sInt
	case *types.Slice:
		return sSlice
	case *types.Interface:
		return sAny
	case *types.Struct:
		return r.structSort(t)
	case *types.Array:
		return "(Array Int " + r.sortOf(u.Elem()) + ")"
	case *types.Tuple:
		return sInt
	}
	return sAny // type params and anything unforeseen
}

func sortTag(s string) string {
	return sanitize(strings.NewReplacer("(", "", ")", "", " ", "_").Replace(s))
}

func (r *Registry) declConst(name, srt string) {
	if _, ok := r.consts[name]; ok {
		return
	}
	r.consts[name] = srt
	r.constOrder = append(r.constOrder, name)
}

func (r *Registry) declFun(name, args, ret string) {
	if _, ok := r.funs[name]; ok {
		return
	}
	r.funs[name] = fmt.Sprintf("(declare-fun %s (%s) %s)", name, args, ret)
	r.funOrder = append(r.funOrder, name)
}

func (r *Registry) axiom(a string) {
	if r.axiomSet[a] {
		return
	}
	r.axiomSet[a] = true
	r.axioms = append(r.axioms, a)
}

func (r *Registry) tid(t types.Type) int {
	k := types.TypeString(t, nil)
	if id, ok := r.tids[k]; ok {
		return id
	}
	id := len(r.tids) + 1
	r.tids[k] = id
	r.tidOrder = append(r.tidOrder, k)
	return id
}

func (r *Registry) strLit(s string) string {
	if n, ok := r.strLits[s]; ok {
		return n
	}
	n := "lit_" + hash8(s)
	if s == "" {
		n = "lit_empty"
	}
	for _, v := range r.strLits {
		if v == n {
			n = n + "_" + fmt.Sprint(len(r.strLits))
		}
	}
	r.strLits[s] = n
	r.strLitOrder = append(r.strLitOrder, s)
	return n
}

// prelude renders all declarations. Deterministic order.
func (r *Registry) prelude() string {
	var b strings.Builder
	b.WriteString("(set-option :produce-models true)\n(set-logic ALL)\n")
	b.WriteString("(declare-sort Str 0)\n(declare-fun slen (Str) Int)\n(declare-fun sat (Str Int) Int)\n")
	b.WriteString("(declare-datatypes ((Slice 0)) (((mkslice (s_arr Int) (s_off Int) (s_len Int) (s_cap Int)))))\n")
	b.WriteString("(declare-datatypes ((Any 0)) (((A_nil) (A_num (a_ntid Int) (a_num Int)) (A_real (a_rtid Int) (a_real Real)) (A_bool (a_btid Int) (a_bool Bool)) (A_str (a_stid Int) (a_str Str)) (A_ref (a_ptid Int) (a_ref Int)) (A_slice (a_ltid Int) (a_slice Slice)) (A_box (a_xtid Int) (a_box Int)))))\n")
	// struct datatypes in dependency order: a struct's field sorts that are structs must come first
	done := map[string]bool{}
	var emit func(name string)
	emit = func(name string) {
		if done[name] {
			return
		}
		done[name] = true
		si := r.structs[name]
		for _, fs := range si.fsorts {
			for dep := range r.structs {
				if dep != name && strings.Contains(fs, dep) && sortMentions(fs, dep) {
					emit(dep)
				}
			}
		}
		var fl strings.Builder
		for i := range si.fields {
			fmt.Fprintf(&fl, " (%s %s)", si.sel(i), si.fsorts[i])
		}
		fmt.Fprintf(&b, "(declare-datatypes ((%s 0)) (((%s%s))))\n", si.sort, si.ctor, fl.String())
	}
	names := append([]string{}, r.structOrder...)
	sort.Strings(names)
	for _, n := range names {
		emit(n)
	}
	for _, n := range r.funOrder {
		b.WriteString(r.funs[n] + "\n")
	}
	for _, n := range r.constOrder {
		fmt.Fprintf(&b, "(declare-const %s %s)\n", n, r.consts[n])
	}
	// string literals
	if len(r.strLitOrder) > 0 {
		var names []string
		for _, s := range r.strLitOrder {
			n := r.strLits[s]
			names = append(names, n)
			fmt.Fprintf(&b, "(declare-const %s Str)\n(assert (= (slen %s) %d))\n", n, n, len(s))
			if len(s) <= 12 {
				for i := 0; i < len(s); i++ {
					fmt.Fprintf(&b, "(assert (= (sat %s %d) %d))\n", n, i, s[i])
				}
			}
		}
		if len(names) > 1 {
			fmt.Fprintf(&b, "(assert (distinct %s))\n", strings.Join(names, " "))
		}
	}
	for _, a := range r.axioms {
		b.WriteString(a + "\n")
	}
	// case mapping of literals that contain no upper-case (resp. lower-case) ASCII letter
	if _, ok := r.funs["str_lower"]; ok {
		for _, s := range r.strLitOrder {
			if s == strings.ToLower(s) && isASCII(s) {
				fmt.Fprintf(&b, "(assert (= (str_lower %s) %s))\n", r.strLits[s], r.strLits[s])
			} else if isASCII(s) {
				if n, ok := r.strLits[strings.ToLower(s)]; ok {
					fmt.Fprintf(&b, "(assert (= (str_lower %s) %s))\n", r.strLits[s], n)
				}
			}
		}
	}
	if _, ok := r.funs["str_upper"]; ok {
		for _, s := range r.strLitOrder {
			if s == strings.ToUpper(s) && isASCII(s) {
				fmt.Fprintf(&b, "(assert (= (str_upper %s) %s))\n", r.strLits[s], r.strLits[s])
			} else if isASCII(s) {
				if n, ok := r.strLits[strings.ToUpper(s)]; ok {
					fmt.Fprintf(&b, "(assert (= (str_upper %s) %s))\n", r.strLits[s], n)
				}
			}
		}
	}
	return b.String()
}

func sortMentions(s, name string) bool {
	// whole-token match of name inside sort expression s
	for _, tok := range strings.FieldsFunc(s, func(r rune) bool { return r == '(' || r == ')' || r == ' ' }) {
		if tok == name {
			return true
		}
	}
	return false
}

// ---- term helpers ----

func sx(op string, args ...string) string {
	return "(" + op + " " + strings.Join(args, " ") + ")"
}

func and(args ...string) string {
	var a []string
	for _, x := range args {
		if x == "true" || x == "" {
			continue
		}
		if x == "false" {
			return "false"
		}
		a = append(a, x)
	}
	switch len(a) {
	case 0:
		return "true"
	case 1:
		return a[0]
	}
	return "(and " + strings.Join(a, " ") + ")"
}

func or(args ...string) string {
	var a []string
	for _, x := range args {
		if x == "false" || x == "" {
			continue
		}
		if x == "true" {
			return "true"
		}
		a = append(a, x)
	}
	switch len(a) {
	case 0:
		return "false"
	case 1:
		return a[0]
	}
	return "(or " + strings.Join(a, " ") + ")"
}

func not(x string) string {
	switch x {
	case "true":
		return "false"
	case "false":
		return "true"
	}
	if strings.HasPrefix(x, "(not ") && balanced(x[5:len(x)-1]) {
		return x[5 : len(x)-1]
	}
	return "(not " + x + ")"
}

func balanced(s string) bool {
	d := 0
	for i, c := range s {
		if c == '(' {
			d++
		} else if c == ')' {
			d--
			if d < 0 {
				return false
			}
			if d == 0 && i != len(s)-1 {
				return false
			}
		} else if d == 0 && c == ' ' {
			return false
		}
	}
	return d == 0
}

func implies(a, b string) string {
	if a == "true" {
		return b
	}
	if b == "true" {
		return "true"
	}
	return "(=> " + a + " " + b + ")"
}

func ite(c, a, b string) string {
	if c == "true" {
		return a
	}
	if c == "false" {
		return b
	}
	if a == b {
		return a
	}
	return "(ite " + c + " " + a + " " + b + ")"
}

func eq(a, b string) string {
	if a == b {
		return "true"
	}
	return "(= " + a + " " + b + ")"
}

func sel(a, i string) string      { return "(select " + a + " " + i + ")" }
func store(a, i, v string) string { return "(store " + a + " " + i + " " + v + ")" }

func intLit(n int64) string {
	if n < 0 {
		return fmt.Sprintf("(- %d)", -n)
	}
	return fmt.Sprint(n)
}

func bigLit(n *big.Int) string {
	if n.Sign() < 0 {
		return "(- " + new(big.Int).Neg(n).String() + ")"
	}
	return n.String()
}

func realLit(f *big.Rat) string {
	num, den := f.Num(), f.Denom()
	s := "(/ " + new(big.Int).Abs(num).String() + ".0 " + den.String() + ".0)"
	if num.Sign() < 0 {
		return "(- " + s + ")"
	}
	return s
}

var (
	two63  = new(big.Int).Lsh(big.NewInt(1), 63)
	two64  = new(big.Int).Lsh(big.NewInt(1), 64)
	two32  = new(big.Int).Lsh(big.NewInt(1), 32)
	two31  = new(big.Int).Lsh(big.NewInt(1), 31)
	two16  = big.NewInt(65536)
	two15  = big.NewInt(32768)
	two8   = big.NewInt(256)
	two7   = big.NewInt(128)
	bigOne = big.NewInt(1)
)

// intRange returns (lo, hi) inclusive bounds for an integer basic kind.
func intRange(b *types.Basic) (lo, hi *big.Int) {
	sub1 := func(x *big.Int) *big.Int { return new(big.Int).Sub(x, bigOne) }
	neg := func(x *big.Int) *big.Int { return new(big.Int).Neg(x) }
	switch b.Kind() {
	case types.Int, types.Int64, types.UntypedInt:
		return neg(two63), sub1(two63)
	case types.Int32, types.UntypedRune:
		return neg(two31), sub1(two31)
	case types.Int16:
		return neg(two15), sub1(two15)
	case types.Int8:
		return neg(two7), sub1(two7)
	case types.Uint, types.Uint64, types.Uintptr:
		return big.NewInt(0), sub1(two64)
	case types.Uint32:
		return big.NewInt(0), sub1(two32)
	case types.Uint16:
		return big.NewInt(0), sub1(two16)
	case types.Uint8:
		return big.NewInt(0), sub1(two8)
	}
	return neg(two63), sub1(two63)
}

// goDiv / goRem: Go truncated division expressed with SMT's Euclidean div.
func goDiv(a, b string) string {
	return fmt.Sprintf("(ite (>= %[1]s 0) (ite (> %[2]s 0) (div %[1]s %[2]s) (- (div %[1]s (- %[2]s)))) (ite (> %[2]s 0) (- (div (- %[1]s) %[2]s)) (div (- %[1]s) (- %[2]s))))", a, b)
}

func goRem(a, b string) string {
	return fmt.Sprintf("(- %s (* %s %s))", a, b, goDiv(a, b))
}

func isASCII(s string) bool {
	for i := 0; i < len(s); i++ {
		if s[i] >= 0x80 {
			return false
		}
	}
	return true
}
