package main

// Contract language: lexer, Pratt sparser for expressions, and the line-oriented contract-file sparser.

import (
	"fmt"
	"sort"
	"strconv"
	"strings"
	"unicode"
)

type SExpr struct {
	Op   string // ident int real str bool nil un bin call index slice sel forall exists ite
	Name string // ident name, operator, field name, callee name
	Args []*SExpr
	Vars []QVar
	Pos  int
}

type QVar struct {
	Name string
	Type string
}

func (e *SExpr) String() string {
	switch e.Op {
	case "ident", "int", "real", "bool", "nil":
		return e.Name
	case "str":
		return strconv.Quote(e.Name)
	case "un":
		return e.Name + e.Args[0].String()
	case "bin":
		return "(" + e.Args[0].String() + " " + e.Name + " " + e.Args[1].String() + ")"
	case "call":
		var a []string
		for _, x := range e.Args {
			a = append(a, x.String())
		}
		return e.Name + "(" + strings.Join(a, ", ") + ")"
	case "index":
		return e.Args[0].String() + "[" + e.Args[1].String() + "]"
	case "slice":
		return e.Args[0].String() + "[" + e.Args[1].String() + ":" + e.Args[2].String() + "]"
	case "sel":
		return e.Args[0].String() + "." + e.Name
	case "forall", "exists":
		var v []string
		for _, q := range e.Vars {
			v = append(v, q.Name+" "+q.Type)
		}
		return "(" + e.Op + " " + strings.Join(v, ", ") + " :: " + e.Args[0].String() + ")"
	case "ite":
		return "(" + e.Args[0].String() + " ? " + e.Args[1].String() + " : " + e.Args[2].String() + ")"
	}
	return "?"
}

type stok struct {
	kind string // id int real str op eof
	text string
	pos  int
}

func lex(src string) ([]stok, error) {
	var toks []stok
	i := 0
	for i < len(src) {
		c := src[i]
		switch {
		case c == ' ' || c == '\t' || c == '\n':
			i++
		case unicode.IsLetter(rune(c)) || c == '_' || c == '$':
			j := i + 1
			for j < len(src) && (unicode.IsLetter(rune(src[j])) || unicode.IsDigit(rune(src[j])) || src[j] == '_' || src[j] == '$') {
				j++
			}
			toks = append(toks, stok{"id", src[i:j], i})
			i = j
		case unicode.IsDigit(rune(c)):
			j := i
			isReal := false
			for j < len(src) && (unicode.IsDigit(rune(src[j])) || (src[j] == '.' && j+1 < len(src) && unicode.IsDigit(rune(src[j+1])))) {
				if src[j] == '.' {
					isReal = true
				}
				j++
			}
			k := "int"
			if isReal {
				k = "real"
			}
			toks = append(toks, stok{k, src[i:j], i})
			i = j
		case c == '"':
			j := i + 1
			for j < len(src) && src[j] != '"' {
				if src[j] == '\\' {
					j++
				}
				j++
			}
			if j >= len(src) {
				return nil, fmt.Errorf("unterminated string at %d", i)
			}
			s, err := strconv.Unquote(src[i : j+1])
			if err != nil {
				return nil, fmt.Errorf("bad string %s: %v", src[i:j+1], err)
			}
			toks = append(toks, stok{"str", s, i})
			i = j + 1
		default:
			ops := []string{"<==>", "==>", "::", "==", "!=", "<=", ">=", "&&", "||", "++", "+", "-", "*", "/", "%", "<", ">", "!", "(", ")", "[", "]", ",", ".", ":", "?", "{", "}"}
			matched := false
			for _, op := range ops {
				if strings.HasPrefix(src[i:], op) {
					toks = append(toks, stok{"op", op, i})
					i += len(op)
					matched = true
					break
				}
			}
			if !matched {
				return nil, fmt.Errorf("unexpected character %q at %d in %q", c, i, src)
			}
		}
	}
	toks = append(toks, stok{"eof", "", len(src)})
	return toks, nil
}

type sparser struct {
	toks []stok
	p    int
	src  string
}

func (p *sparser) peek() stok { return p.toks[p.p] }
func (p *sparser) next() stok { t := p.toks[p.p]; p.p++; return t }
func (p *sparser) isOp(s string) bool {
	t := p.peek()
	return t.kind == "op" && t.text == s
}
func (p *sparser) expectOp(s string) error {
	if !p.isOp(s) {
		return fmt.Errorf("expected %q at %d in %q (got %q)", s, p.peek().pos, p.src, p.peek().text)
	}
	p.next()
	return nil
}

var binPrec = map[string]int{"<==>": 1, "==>": 2, "||": 3, "&&": 4, "==": 5, "!=": 5, "<": 5, "<=": 5, ">": 5, ">=": 5, "+": 6, "-": 6, "++": 6, "*": 7, "/": 7, "%": 7}

func parseExpr(src string) (*SExpr, error) {
	toks, err := lex(src)
	if err != nil {
		return nil, err
	}
	p := &sparser{toks: toks, src: src}
	e, err := p.expr(0)
	if err != nil {
		return nil, err
	}
	if p.peek().kind != "eof" {
		return nil, fmt.Errorf("trailing input at %d in %q", p.peek().pos, src)
	}
	return e, nil
}

func (p *sparser) expr(minPrec int) (*SExpr, error) {
	// quantifiers bind loosest and extend to the right
	if t := p.peek(); t.kind == "id" && (t.text == "forall" || t.text == "exists") && p.toks[p.p+1].kind == "id" {
		p.next()
		var vars []QVar
		for {
			n := p.next()
			if n.kind != "id" {
				return nil, fmt.Errorf("quantifier variable expected at %d in %q", n.pos, p.src)
			}
			var ty strings.Builder
			for !p.isOp(",") && !p.isOp("::") {
				if p.peek().kind == "eof" {
					return nil, fmt.Errorf("':: ' expected in quantifier in %q", p.src)
				}
				ty.WriteString(p.next().text)
			}
			vars = append(vars, QVar{n.text, ty.String()})
			if p.isOp(",") {
				p.next()
				continue
			}
			break
		}
		// variables listed without a type take the type of the next typed variable: "i, j int"
		for i := len(vars) - 1; i >= 0; i-- {
			if vars[i].Type == "" && i+1 < len(vars) {
				vars[i].Type = vars[i+1].Type
			}
		}
		if err := p.expectOp("::"); err != nil {
			return nil, err
		}
		body, err := p.expr(0)
		if err != nil {
			return nil, err
		}
		return &SExpr{Op: t.text, Vars: vars, Args: []*SExpr{body}, Pos: t.pos}, nil
	}
	lhs, err := p.unary()
	if err != nil {
		return nil, err
	}
	for {
		t := p.peek()
		if t.kind == "op" && t.text == "?" && minPrec == 0 {
			p.next()
			a, err := p.expr(0)
			if err != nil {
				return nil, err
			}
			if err := p.expectOp(":"); err != nil {
				return nil, err
			}
			b, err := p.expr(0)
			if err != nil {
				return nil, err
			}
			lhs = &SExpr{Op: "ite", Args: []*SExpr{lhs, a, b}, Pos: t.pos}
			continue
		}
		prec, ok := binPrec[t.text]
		if t.kind != "op" || !ok || prec < minPrec {
			break
		}
		p.next()
		var rhs *SExpr
		if t.text == "==>" {
			rhs, err = p.expr(prec) // right associative
		} else {
			rhs, err = p.expr(prec + 1)
		}
		if err != nil {
			return nil, err
		}
		lhs = &SExpr{Op: "bin", Name: t.text, Args: []*SExpr{lhs, rhs}, Pos: t.pos}
	}
	return lhs, nil
}

func (p *sparser) unary() (*SExpr, error) {
	t := p.peek()
	if t.kind == "op" && (t.text == "!" || t.text == "-") {
		p.next()
		x, err := p.unary()
		if err != nil {
			return nil, err
		}
		return &SExpr{Op: "un", Name: t.text, Args: []*SExpr{x}, Pos: t.pos}, nil
	}
	return p.postfix()
}

func (p *sparser) postfix() (*SExpr, error) {
	e, err := p.primary()
	if err != nil {
		return nil, err
	}
	for {
		switch {
		case p.isOp("."):
			p.next()
			n := p.next()
			if n.kind != "id" {
				return nil, fmt.Errorf("field name expected at %d in %q", n.pos, p.src)
			}
			e = &SExpr{Op: "sel", Name: n.text, Args: []*SExpr{e}, Pos: n.pos}
		case p.isOp("["):
			p.next()
			var lo, hi *SExpr
			if !p.isOp(":") {
				lo, err = p.expr(0)
				if err != nil {
					return nil, err
				}
			}
			if p.isOp(":") {
				p.next()
				if !p.isOp("]") {
					hi, err = p.expr(0)
					if err != nil {
						return nil, err
					}
				}
				if err := p.expectOp("]"); err != nil {
					return nil, err
				}
				e = &SExpr{Op: "slice", Args: []*SExpr{e, lo, hi}}
			} else {
				if err := p.expectOp("]"); err != nil {
					return nil, err
				}
				e = &SExpr{Op: "index", Args: []*SExpr{e, lo}}
			}
		case p.isOp("("):
			// call: callee must be ident or pkg.ident
			name := ""
			if e.Op == "ident" {
				name = e.Name
			} else if e.Op == "sel" && e.Args[0].Op == "ident" {
				name = e.Args[0].Name + "." + e.Name
			} else {
				return nil, fmt.Errorf("call of non-name in %q", p.src)
			}
			p.next()
			var args []*SExpr
			for !p.isOp(")") {
				a, err := p.expr(0)
				if err != nil {
					return nil, err
				}
				args = append(args, a)
				if p.isOp(",") {
					p.next()
				}
			}
			p.next()
			e = &SExpr{Op: "call", Name: name, Args: args, Pos: e.Pos}
		default:
			return e, nil
		}
	}
}

func (p *sparser) primary() (*SExpr, error) {
	t := p.next()
	switch t.kind {
	case "id":
		switch t.text {
		case "true", "false":
			return &SExpr{Op: "bool", Name: t.text, Pos: t.pos}, nil
		case "nil":
			return &SExpr{Op: "nil", Name: "nil", Pos: t.pos}, nil
		}
		return &SExpr{Op: "ident", Name: t.text, Pos: t.pos}, nil
	case "int":
		return &SExpr{Op: "int", Name: t.text, Pos: t.pos}, nil
	case "real":
		return &SExpr{Op: "real", Name: t.text, Pos: t.pos}, nil
	case "str":
		return &SExpr{Op: "str", Name: t.text, Pos: t.pos}, nil
	case "op":
		if t.text == "(" {
			e, err := p.expr(0)
			if err != nil {
				return nil, err
			}
			if err := p.expectOp(")"); err != nil {
				return nil, err
			}
			return e, nil
		}
	}
	return nil, fmt.Errorf("unexpected %q at %d in %q", t.text, t.pos, p.src)
}

// ---------------- contract files ----------------

type Clause struct {
	Kind  string // requires ensures invariant assert decreases
	Label string
	Text  string
	Expr  *SExpr
	Props []string
	File  string
	Line  int
}

type LoopSpec struct {
	Ordinal    int
	Invariants []*Clause
	Iterations []*Clause // checked at every back edge; may use atheader(e) for the value of e when the iteration started
}

type FuncSpec struct {
	Name        string // e.g. "(*CacheLRU).Less", "CompareLex", "NewSugarDB$7"
	Pkg         string // package path
	Props       []string
	Flags       map[string]bool
	Requires    []*Clause
	Assumes     []*Clause
	DynCalls    map[string][]string
	Ensures     []*Clause
	Modifies    []string // raw targets; nil = unspecified (treated as "*"), ["nothing"] = empty
	HasMod      bool
	Preserves   []string
	Uses        []string // global heap invariants assumed on entry and re-established on exit
	Loops       map[int]*LoopSpec
	Asserts     []*Clause
	File        string
	Line        int
	ResultNames []string
}

type SpecFunc struct {
	Name     string
	Params   []QVar
	Ret      string
	Body     *SExpr
	Text     string
	Pkg      string
	Rec      bool
	Uninterp bool
}

type TypeInv struct {
	Type  string
	Pkg   string
	Invs  []*Clause
	Param string // name the invariant uses for the receiver, default "this"
}

type FieldBinding struct {
	Type, Field string // e.g. internal.HandlerFuncParams, KeysExist
	Target      string // spec name of the contract to use, e.g. "sugardb.(*SugarDB).keysExist"
	Recv        string // expression substituted for the receiver (a ghost name)
}

type Contracts struct {
	Funcs   map[string]*FuncSpec // key: pkgpath + "." + name
	Specs   map[string]*SpecFunc
	Types   map[string]*TypeInv
	Ghosts  map[string]string // $name -> sort text
	Axioms  []*Clause
	Fields  map[string]*FieldBinding
	Globals map[string]*Clause
	Order   []string
}

func newContracts() *Contracts {
	return &Contracts{Funcs: map[string]*FuncSpec{}, Specs: map[string]*SpecFunc{}, Types: map[string]*TypeInv{}, Ghosts: map[string]string{}, Fields: map[string]*FieldBinding{}, Globals: map[string]*Clause{}}
}

var clauseKeywords = map[string]bool{"requires": true, "ensures": true, "modifies": true, "preserves": true, "decreases": true,
	"loop": true, "invariant": true, "assert": true, "func": true, "spec": true, "ghost": true, "axiom": true, "type": true,
	"iface": true, "field": true, "end": true, "flags": true, "props": true, "lemma": true, "results": true, "global": true, "uses": true, "ufun": true, "assumes": true, "functype": true, "dyncalls": true, "iteration": true, "fieldspec": true}

type rawLine struct {
	text string
	line int
}

func parseContractText(c *Contracts, pkgPath, file string, lines []rawLine) error {
	// join continuation lines
	var stmts []rawLine
	for _, l := range lines {
		t := strings.TrimSpace(l.text)
		if t == "" {
			continue
		}
		if i := strings.Index(t, " //"); i >= 0 && !strings.Contains(t[:i], "\"") {
			t = strings.TrimSpace(t[:i])
		}
		first := t
		if i := strings.IndexAny(t, " \t"); i >= 0 {
			first = t[:i]
		}
		if clauseKeywords[first] || len(stmts) == 0 {
			stmts = append(stmts, rawLine{t, l.line})
		} else {
			stmts[len(stmts)-1].text += " " + t
		}
	}
	var cur *FuncSpec
	var curLoop *LoopSpec
	var curType *TypeInv
	mkClause := func(kind, rest string, line int) (*Clause, error) {
		cl := &Clause{Kind: kind, File: file, Line: line}
		rest = strings.TrimSpace(rest)
		// optional {C01,C02}
		if strings.HasPrefix(rest, "{") {
			j := strings.Index(rest, "}")
			if j > 0 {
				for _, p := range strings.Split(rest[1:j], ",") {
					cl.Props = append(cl.Props, strings.TrimSpace(p))
				}
				rest = strings.TrimSpace(rest[j+1:])
			}
		}
		// optional label:
		if j := strings.Index(rest, ":"); j > 0 && isLabel(rest[:j]) && !strings.HasPrefix(rest[j:], "::") {
			cl.Label = rest[:j]
			rest = strings.TrimSpace(rest[j+1:])
		}
		cl.Text = rest
		e, err := parseExpr(rest)
		if err != nil {
			return nil, fmt.Errorf("%s:%d: %v", file, line, err)
		}
		cl.Expr = e
		return cl, nil
	}
	for _, s := range stmts {
		kw, rest := s.text, ""
		if i := strings.IndexAny(s.text, " \t"); i >= 0 {
			kw, rest = s.text[:i], strings.TrimSpace(s.text[i+1:])
		}
		switch kw {
		case "fieldspec":
			// fieldspec pkg.Type.Field: contract assumed for every call through that function-valued struct field
			cur = &FuncSpec{Pkg: pkgPath, Flags: map[string]bool{"functype": true}, Loops: map[int]*LoopSpec{}, File: file, Line: s.line}
			curLoop, curType = nil, nil
			fields := strings.Fields(rest)
			if len(fields) == 0 {
				return fmt.Errorf("%s:%d: fieldspec needs pkg.Type.Field", file, s.line)
			}
			cur.Name = "fieldspec." + fields[0]
			for i := 1; i < len(fields); i++ {
				if fields[i] == "props" && i+1 < len(fields) {
					cur.Props = strings.Split(fields[i+1], ",")
					i++
				}
			}
			c.Funcs["fieldspec."+fields[0]] = cur
		case "functype":
			// contract every value of a named function type is assumed to satisfy at dynamic call sites
			cur = &FuncSpec{Pkg: pkgPath, Flags: map[string]bool{"functype": true}, Loops: map[int]*LoopSpec{}, File: file, Line: s.line}
			curLoop, curType = nil, nil
			fields := strings.Fields(rest)
			if len(fields) == 0 {
				return fmt.Errorf("%s:%d: functype needs a type name", file, s.line)
			}
			cur.Name = "functype." + fields[0]
			for i := 1; i < len(fields); i++ {
				if fields[i] == "props" && i+1 < len(fields) {
					cur.Props = strings.Split(fields[i+1], ",")
					i++
				} else if fields[i] == "roots" {
					// the functions of this signature are entered only through values of the type: the requires clauses
					// (checked at every dynamic call) are the default precondition of such a function without a contract
					cur.Flags["roots"] = true
				}
			}
			c.Funcs[cur.Pkg+"."+cur.Name] = cur
		case "func", "iface":
			cur = &FuncSpec{Pkg: pkgPath, Flags: map[string]bool{}, Loops: map[int]*LoopSpec{}, File: file, Line: s.line}
			curLoop, curType = nil, nil
			fields := strings.Fields(rest)
			if len(fields) == 0 {
				return fmt.Errorf("%s:%d: func needs a name", file, s.line)
			}
			cur.Name = fields[0]
			for i := 1; i < len(fields); i++ {
				switch {
				case fields[i] == "props" && i+1 < len(fields):
					for _, p := range strings.Split(fields[i+1], ",") {
						cur.Props = append(cur.Props, p)
					}
					i++
				case fields[i] == "in" && i+1 < len(fields):
					cur.Pkg = fields[i+1]
					i++
				default:
					cur.Flags[fields[i]] = true
				}
			}
			key := cur.Pkg + "." + cur.Name
			if _, dup := c.Funcs[key]; dup {
				return fmt.Errorf("%s:%d: duplicate contract for %s", file, s.line, key)
			}
			c.Funcs[key] = cur
			c.Order = append(c.Order, key)
		case "results":
			if cur == nil {
				return fmt.Errorf("%s:%d: results outside func", file, s.line)
			}
			cur.ResultNames = strings.Fields(strings.ReplaceAll(rest, ",", " "))
		case "dyncalls":
			// dyncalls <param> modifies <targets>: calls through function values taken from parameter <param> are assumed to
			// modify at most the listed locations (an assumption about the callers, reported in the evidence)
			if cur == nil {
				return fmt.Errorf("%s:%d: dyncalls outside func", file, s.line)
			}
			f := strings.Fields(rest)
			if len(f) < 3 || f[1] != "modifies" {
				return fmt.Errorf("%s:%d: dyncalls <param> modifies <targets>", file, s.line)
			}
			if cur.DynCalls == nil {
				cur.DynCalls = map[string][]string{}
			}
			for _, t := range splitTop(strings.TrimSpace(rest[strings.Index(rest, "modifies")+8:])) {
				if t = strings.TrimSpace(t); t != "" && t != "nothing" {
					cur.DynCalls[f[0]] = append(cur.DynCalls[f[0]], t)
				}
			}
			if cur.DynCalls[f[0]] == nil {
				cur.DynCalls[f[0]] = []string{}
			}
		case "assumes":
			// an ownership / environment assumption: assumed by the function, NOT checked at call sites; reported in the evidence
			if cur == nil {
				return fmt.Errorf("%s:%d: assumes outside func", file, s.line)
			}
			cl, err := mkClause(kw, rest, s.line)
			if err != nil {
				return err
			}
			cur.Assumes = append(cur.Assumes, cl)
		case "requires", "ensures", "decreases":
			if cur == nil {
				return fmt.Errorf("%s:%d: %s outside func", file, s.line, kw)
			}
			cl, err := mkClause(kw, rest, s.line)
			if err != nil {
				return err
			}
			if len(cl.Props) == 0 {
				cl.Props = cur.Props
			}
			if kw == "requires" {
				cur.Requires = append(cur.Requires, cl)
			} else if kw == "ensures" {
				cur.Ensures = append(cur.Ensures, cl)
			}
		case "modifies":
			if cur == nil {
				return fmt.Errorf("%s:%d: modifies outside func", file, s.line)
			}
			cur.HasMod = true
			for _, t := range splitTop(rest) {
				t = strings.TrimSpace(t)
				if t != "" && t != "nothing" {
					cur.Modifies = append(cur.Modifies, t)
				}
			}
		case "global":
			cl, err := mkClause(kw, rest, s.line)
			if err != nil {
				return err
			}
			if cl.Label == "" {
				return fmt.Errorf("%s:%d: global needs a name: global name: expr", file, s.line)
			}
			c.Globals[pkgPath+"."+cl.Label] = cl
			cur, curLoop, curType = nil, nil, nil
		case "ufun":
			// ufun name(p T, ...) R  -- uninterpreted specification function
			lp, rp := strings.Index(rest, "("), strings.LastIndex(rest, ")")
			if lp < 0 || rp < lp {
				return fmt.Errorf("%s:%d: ufun header", file, s.line)
			}
			sf := &SpecFunc{Name: strings.TrimSpace(rest[:lp]), Ret: strings.TrimSpace(rest[rp+1:]), Text: rest, Pkg: pkgPath, Uninterp: true}
			for _, ps := range splitTop(rest[lp+1 : rp]) {
				f := strings.Fields(ps)
				if len(f) >= 2 {
					sf.Params = append(sf.Params, QVar{f[0], strings.Join(f[1:], "")})
				}
			}
			c.Specs[sf.Name] = sf
			cur, curLoop, curType = nil, nil, nil
		case "uses":
			if cur == nil {
				return fmt.Errorf("%s:%d: uses outside func", file, s.line)
			}
			cur.Uses = append(cur.Uses, strings.Fields(strings.ReplaceAll(rest, ",", " "))...)
		case "preserves":
			if cur == nil {
				return fmt.Errorf("%s:%d: preserves outside func", file, s.line)
			}
			cur.Preserves = append(cur.Preserves, strings.Fields(strings.ReplaceAll(rest, ",", " "))...)
		case "loop":
			if cur == nil {
				return fmt.Errorf("%s:%d: loop outside func", file, s.line)
			}
			n, err := strconv.Atoi(strings.TrimSpace(rest))
			if err != nil {
				return fmt.Errorf("%s:%d: loop ordinal: %v", file, s.line, err)
			}
			curLoop = &LoopSpec{Ordinal: n}
			cur.Loops[n] = curLoop
		case "iteration":
			cl, err := mkClause(kw, rest, s.line)
			if err != nil {
				return err
			}
			if curLoop == nil {
				return fmt.Errorf("%s:%d: iteration outside loop", file, s.line)
			}
			if len(cl.Props) == 0 {
				cl.Props = cur.Props
			}
			curLoop.Iterations = append(curLoop.Iterations, cl)
		case "invariant":
			cl, err := mkClause(kw, rest, s.line)
			if err != nil {
				return err
			}
			if curType != nil {
				curType.Invs = append(curType.Invs, cl)
			} else if curLoop != nil {
				if len(cl.Props) == 0 {
					cl.Props = cur.Props
				}
				curLoop.Invariants = append(curLoop.Invariants, cl)
			} else {
				return fmt.Errorf("%s:%d: invariant outside loop/type", file, s.line)
			}
		case "assert":
			if cur == nil {
				return fmt.Errorf("%s:%d: assert outside func", file, s.line)
			}
			// assert @callee#n label: expr
			f := strings.Fields(rest)
			if len(f) < 2 || !strings.HasPrefix(f[0], "@") {
				return fmt.Errorf("%s:%d: assert @callee#n expr", file, s.line)
			}
			cl, err := mkClause(kw, strings.TrimSpace(rest[len(f[0]):]), s.line)
			if err != nil {
				return err
			}
			cl.Kind = "assert" + f[0]
			if len(cl.Props) == 0 {
				cl.Props = cur.Props
			}
			cur.Asserts = append(cur.Asserts, cl)
		case "end":
			curLoop = nil
		case "type":
			f := strings.Fields(rest)
			curType = &TypeInv{Type: f[0], Pkg: pkgPath, Param: "this"}
			cur, curLoop = nil, nil
			c.Types[pkgPath+"."+f[0]] = curType
		case "spec":
			// spec name(p T, q U) R = expr
			eqi := strings.Index(rest, "=")
			for eqi >= 0 && (strings.HasPrefix(rest[eqi:], "==") || (eqi > 0 && strings.ContainsAny(rest[eqi-1:eqi], "=!<>"))) {
				n := strings.Index(rest[eqi+2:], "=")
				if n < 0 {
					eqi = -1
					break
				}
				eqi += 2 + n
			}
			if eqi < 0 {
				return fmt.Errorf("%s:%d: spec needs '='", file, s.line)
			}
			head, body := strings.TrimSpace(rest[:eqi]), strings.TrimSpace(rest[eqi+1:])
			lp, rp := strings.Index(head, "("), strings.LastIndex(head, ")")
			if lp < 0 || rp < lp {
				return fmt.Errorf("%s:%d: spec header", file, s.line)
			}
			sf := &SpecFunc{Name: strings.TrimSpace(head[:lp]), Ret: strings.TrimSpace(head[rp+1:]), Text: rest, Pkg: pkgPath}
			if strings.HasPrefix(sf.Name, "rec ") {
				sf.Rec = true
				sf.Name = strings.TrimSpace(sf.Name[4:])
			}
			for _, ps := range splitTop(head[lp+1 : rp]) {
				f := strings.Fields(ps)
				if len(f) == 0 {
					continue
				}
				if len(f) < 2 {
					return fmt.Errorf("%s:%d: spec param %q needs a type", file, s.line, ps)
				}
				sf.Params = append(sf.Params, QVar{f[0], strings.Join(f[1:], "")})
			}
			e, err := parseExpr(body)
			if err != nil {
				return fmt.Errorf("%s:%d: %v", file, s.line, err)
			}
			sf.Body = e
			c.Specs[sf.Name] = sf
			cur, curLoop, curType = nil, nil, nil
		case "ghost":
			f := strings.Fields(rest)
			if len(f) < 2 {
				return fmt.Errorf("%s:%d: ghost $name sort", file, s.line)
			}
			c.Ghosts[f[0]] = strings.Join(f[1:], " ")
		case "axiom":
			cl, err := mkClause(kw, rest, s.line)
			if err != nil {
				return err
			}
			c.Axioms = append(c.Axioms, cl)
		case "field":
			// field internal.HandlerFuncParams.KeysExist = sugardb.(*SugarDB).keysExist recv $srv
			f := strings.Fields(rest)
			if len(f) < 3 || f[1] != "=" {
				return fmt.Errorf("%s:%d: field T.F = target [recv expr]", file, s.line)
			}
			li := strings.LastIndex(f[0], ".")
			fb := &FieldBinding{Type: f[0][:li], Field: f[0][li+1:], Target: f[2]}
			if len(f) >= 5 && f[3] == "recv" {
				fb.Recv = f[4]
			}
			c.Fields[f[0]] = fb
		default:
			return fmt.Errorf("%s:%d: unknown contract keyword %q", file, s.line, kw)
		}
	}
	return nil
}

func isLabel(s string) bool {
	if s == "" {
		return false
	}
	for _, r := range s {
		if !(unicode.IsLetter(r) || unicode.IsDigit(r) || r == '_' || r == '-') {
			return false
		}
	}
	return true
}

// splitTop splits on commas that are not nested in brackets.
func splitTop(s string) []string {
	var out []string
	d, st := 0, 0
	for i, c := range s {
		switch c {
		case '(', '[', '{':
			d++
		case ')', ']', '}':
			d--
		case ',':
			if d == 0 {
				out = append(out, s[st:i])
				st = i + 1
			}
		}
	}
	out = append(out, s[st:])
	return out
}

func sortedKeys[V any](m map[string]V) []string {
	var ks []string
	for k := range m {
		ks = append(ks, k)
	}
	sort.Strings(ks)
	return ks
}
