package main

// Translation of contract expressions to SMT terms in the context of a symbolic state.

import (
	"fmt"
	"go/ast"
	"go/constant"
	"go/parser"
	"go/types"
	"math/big"
	"strings"
)

type specCtx struct {
	local  func(name string, st *State) (Val, bool) // resolves source-level local variables (loop invariants)
	iter   *iterInfo                                // map iterator of the loop whose invariant is being evaluated (for seen(k))
	header *State                                   // state at the loop header of the current iteration (iteration clauses)
	henv   map[string]Val                           // values of the loop-carried variables at the header (iteration clauses)
	fr     *Frame
	cur    *State
	old    *State
	env    map[string]Val
	pkg    *types.Package
	depth  int
}

func (c *specCtx) with(env map[string]Val) *specCtx {
	n := *c
	n.env = env
	return &n
}

func (v Val) sort(u *Unit) string {
	if v.S != "" {
		return v.S
	}
	return u.sortOf(v.Ty)
}

func (fr *Frame) baseEnv() map[string]Val {
	env := map[string]Val{}
	for i, p := range fr.fn.Params {
		if i < len(fr.params) {
			env[p.Name()] = fr.params[i]
		} else if v, ok := fr.vals[p]; ok {
			env[p.Name()] = v
		}
	}
	for _, fv := range fr.fn.FreeVars {
		if v, ok := fr.vals[fv]; ok {
			env["&"+fv.Name()] = v
			// captured variables are cells: the name denotes the value held on entry (closures under contract do not reassign them)
			if pv, ok := fr.pinned[fv]; ok {
				env[fv.Name()] = pv
			} else if pt, ok := fv.Type().Underlying().(*types.Pointer); ok && fr.u.entry != nil {
				a := fr.addrOfRef(v.T, pt.Elem())
				env[fv.Name()] = fr.load(fr.u.entry, a)
			}
		}
	}
	return env
}

func (u *Unit) specBool(e *SExpr, ctx *specCtx) (string, error) {
	v, err := u.specVal(e, ctx)
	if err != nil {
		return "", err
	}
	if v.sort(u) != sBool {
		return "", fmt.Errorf("expression %s is not boolean (sort %s)", e, v.sort(u))
	}
	return v.T, nil
}

var tBoolT = types.Typ[types.Bool]
var tIntT = types.Typ[types.Int]
var tStrT = types.Typ[types.String]
var tRealT = types.Typ[types.Float64]
var tAnyT = types.NewInterfaceType(nil, nil)

func (ctx *specCtx) pkgOf() *types.Package {
	if ctx.pkg != nil {
		return ctx.pkg
	}
	if ctx.fr != nil && ctx.fr.fn.Pkg != nil {
		return ctx.fr.fn.Pkg.Pkg
	}
	return nil
}

func (u *Unit) specVal(e *SExpr, ctx *specCtx) (Val, error) {
	switch e.Op {
	case "int":
		return Val{T: e.Name, Ty: tIntT}, nil
	case "real":
		return Val{T: e.Name, Ty: tRealT}, nil
	case "bool":
		return Val{T: e.Name, Ty: tBoolT}, nil
	case "str":
		return Val{T: u.reg.strLit(e.Name), Ty: tStrT}, nil
	case "nil":
		return Val{T: "0", Ty: types.Typ[types.UntypedNil]}, nil
	case "ident":
		return u.specIdent(e, ctx)
	case "un":
		x, err := u.specVal(e.Args[0], ctx)
		if err != nil {
			return Val{}, err
		}
		if e.Name == "!" {
			return Val{T: not(x.T), Ty: tBoolT}, nil
		}
		return Val{T: sx("-", x.T), Ty: x.Ty, S: x.S}, nil
	case "bin":
		return u.specBin(e, ctx)
	case "ite":
		c, err := u.specBool(e.Args[0], ctx)
		if err != nil {
			return Val{}, err
		}
		a, err := u.specVal(e.Args[1], ctx)
		if err != nil {
			return Val{}, err
		}
		b, err := u.specVal(e.Args[2], ctx)
		if err != nil {
			return Val{}, err
		}
		a, b = u.unifyNil(a, b)
		return Val{T: ite(c, a.T, b.T), Ty: a.Ty, S: a.S}, nil
	case "forall", "exists":
		env := map[string]Val{}
		for k, v := range ctx.env {
			env[k] = v
		}
		var decl []string
		var guards []string
		for _, q := range e.Vars {
			ty, srt, err := u.resolveSpecType(q.Type, ctx)
			if err != nil {
				return Val{}, err
			}
			name := "q_" + sanitize(q.Name)
			decl = append(decl, fmt.Sprintf("(%s %s)", name, srt))
			v := Val{T: name, Ty: ty}
			if ty == nil {
				v.S = srt
			}
			env[q.Name] = v
		}
		body, err := u.specBool(e.Args[0], ctx.with(env))
		if err != nil {
			return Val{}, err
		}
		_ = guards
		return Val{T: fmt.Sprintf("(%s (%s) %s)", e.Op, strings.Join(decl, " "), body), Ty: tBoolT}, nil
	case "sel":
		return u.specSel(e, ctx)
	case "index":
		return u.specIndex(e, ctx)
	case "slice":
		x, err := u.specVal(e.Args[0], ctx)
		if err != nil {
			return Val{}, err
		}
		lo, hi := "0", ""
		if e.Args[1] != nil {
			v, err := u.specVal(e.Args[1], ctx)
			if err != nil {
				return Val{}, err
			}
			lo = v.T
		}
		if e.Args[2] != nil {
			v, err := u.specVal(e.Args[2], ctx)
			if err != nil {
				return Val{}, err
			}
			hi = v.T
		}
		if x.sort(u) == sStr {
			if hi == "" {
				hi = sx("slen", x.T)
			}
			return Val{T: u.substr(ctx.cur, x.T, lo, hi), Ty: tStrT}, nil
		}
		if x.sort(u) == sSlice {
			if hi == "" {
				hi = sx("s_len", x.T)
			}
			return Val{T: sx("mkslice", sx("s_arr", x.T), sx("+", sx("s_off", x.T), lo), sx("-", hi, lo), sx("-", sx("s_cap", x.T), lo)), Ty: x.Ty}, nil
		}
		return Val{}, fmt.Errorf("cannot slice %s", e.Args[0])
	case "call":
		return u.specCall(e, ctx)
	}
	return Val{}, fmt.Errorf("unsupported spec expression %s", e)
}

func (u *Unit) unifyNil(a, b Val) (Val, Val) {
	isNil := func(v Val) bool {
		bt, ok := v.Ty.(*types.Basic)
		return ok && bt.Kind() == types.UntypedNil
	}
	if isNil(a) && !isNil(b) {
		a = Val{T: u.zeroOfVal(b), Ty: b.Ty, S: b.S}
	} else if isNil(b) && !isNil(a) {
		b = Val{T: u.zeroOfVal(a), Ty: a.Ty, S: a.S}
	}
	return a, b
}

func (u *Unit) zeroOfVal(v Val) string {
	if v.Ty != nil {
		return u.zero(v.Ty)
	}
	switch v.S {
	case sAny:
		return "A_nil"
	case sBool:
		return "false"
	}
	return "0"
}

func (u *Unit) specIdent(e *SExpr, ctx *specCtx) (Val, error) {
	if v, ok := ctx.env[e.Name]; ok {
		return v, nil
	}
	// rangemap: the (possibly unnamed) map a range-over-map loop iterates over, in invariants of that loop
	if e.Name == "rangemap" && ctx.iter != nil && ctx.iter.m.T != "" {
		return ctx.iter.m, nil
	}
	if ctx.local != nil && !strings.HasPrefix(e.Name, "$") {
		if v, ok := ctx.local(e.Name, ctx.cur); ok {
			return v, nil
		}
	}
	if strings.HasPrefix(e.Name, "$") {
		switch e.Name {
		case "$now":
			return Val{T: u.hget(ctx.cur, "$now", sInt), Ty: u.eng.timeType()}, nil
		case "$alloc":
			return Val{T: u.hget(ctx.cur, "$alloc", sInt), Ty: tIntT}, nil
		case "$lastjson":
			return Val{T: u.hget(ctx.cur, "$lastjson", sStr), Ty: tStrT}, nil
		case "$lastread":
			return Val{T: u.hget(ctx.cur, "$lastread", sInt), Ty: tIntT}, nil
		case "$lastreaderr":
			return Val{T: u.hget(ctx.cur, "$lastreaderr", sBool), Ty: tBoolT}, nil
		case "$chansent":
			return Val{T: u.hget(ctx.cur, "$chansent", "(Array Int Int)"), S: "(Array Int Int)"}, nil
		case "$chanlast":
			return Val{T: u.hget(ctx.cur, "$chanlast", "(Array Int Any)"), S: "(Array Int Any)"}, nil
		}
		if srt, ok := u.eng.contracts.Ghosts[e.Name]; ok {
			if strings.HasPrefix(srt, "const ") { // ghost constant of a Go type, e.g. "const *sugardb.SugarDB"
				ty, _, err := u.resolveSpecType(strings.TrimSpace(srt[6:]), ctx)
				if err != nil {
					return Val{}, err
				}
				return u.ghostVal(ctx.cur, e.Name, ty)
			}
			return Val{T: u.hget(ctx.cur, e.Name, srt), S: srt}, nil
		}
		return Val{}, fmt.Errorf("unknown ghost %s", e.Name)
	}
	// package-level constant or variable of the function's package
	if p := ctx.pkgOf(); p != nil {
		if obj := p.Scope().Lookup(e.Name); obj != nil {
			return u.specObject(obj, ctx)
		}
	}
	if e.Name == "zerotime" {
		return Val{T: "0", Ty: u.eng.timeType()}, nil
	}
	return Val{}, fmt.Errorf("unknown identifier %s", e.Name)
}

func (u *Unit) specObject(obj types.Object, ctx *specCtx) (Val, error) {
	switch o := obj.(type) {
	case *types.Const:
		return u.constToVal(o.Val(), o.Type()), nil
	case *types.Var:
		name := "G_" + sanitize(o.Pkg().Name()+"_"+o.Name())
		return Val{T: u.hget(ctx.cur, name, u.sortOf(o.Type())), Ty: o.Type()}, nil
	}
	return Val{}, fmt.Errorf("unsupported object %s", obj)
}

func (u *Unit) constToVal(cv constant.Value, t types.Type) Val {
	switch cv.Kind() {
	case constant.Bool:
		if constant.BoolVal(cv) {
			return Val{T: "true", Ty: t}
		}
		return Val{T: "false", Ty: t}
	case constant.String:
		return Val{T: u.reg.strLit(constant.StringVal(cv)), Ty: t}
	case constant.Int:
		n, _ := new(big.Int).SetString(cv.ExactString(), 10)
		return Val{T: bigLit(n), Ty: t}
	case constant.Float:
		r, _ := new(big.Rat).SetString(cv.ExactString())
		return Val{T: realLit(r), Ty: t}
	}
	return Val{T: "0", Ty: t}
}

func (u *Unit) specBin(e *SExpr, ctx *specCtx) (Val, error) {
	switch e.Name {
	case "&&", "||", "==>", "<==>":
		a, err := u.specBool(e.Args[0], ctx)
		if err != nil {
			return Val{}, err
		}
		b, err := u.specBool(e.Args[1], ctx)
		if err != nil {
			return Val{}, err
		}
		switch e.Name {
		case "&&":
			return Val{T: and(a, b), Ty: tBoolT}, nil
		case "||":
			return Val{T: or(a, b), Ty: tBoolT}, nil
		case "==>":
			return Val{T: implies(a, b), Ty: tBoolT}, nil
		}
		return Val{T: eq(a, b), Ty: tBoolT}, nil
	}
	a, err := u.specVal(e.Args[0], ctx)
	if err != nil {
		return Val{}, err
	}
	b, err := u.specVal(e.Args[1], ctx)
	if err != nil {
		return Val{}, err
	}
	switch e.Name {
	case "==", "!=":
		isNil := func(v Val) bool {
			bt, ok := v.Ty.(*types.Basic)
			return ok && bt.Kind() == types.UntypedNil
		}
		var t string
		switch {
		case isNil(b) && a.sort(u) == sSlice:
			t = eq(sx("s_arr", a.T), "0")
		case isNil(a) && b.sort(u) == sSlice:
			t = eq(sx("s_arr", b.T), "0")
		default:
			a, b = u.unifyNil(a, b)
			as, bs := a.sort(u), b.sort(u)
			if as == sAny && bs != sAny && b.Ty != nil {
				b = Val{T: u.box(ctx.cur, b), S: sAny}
			} else if bs == sAny && as != sAny && a.Ty != nil {
				a = Val{T: u.box(ctx.cur, a), S: sAny}
			} else if as == sInt && bs == sReal {
				a = Val{T: sx("to_real", a.T), S: sReal}
			} else if as == sReal && bs == sInt {
				b = Val{T: sx("to_real", b.T), S: sReal}
			}
			if a.sort(u) != b.sort(u) {
				return Val{}, fmt.Errorf("sort mismatch in %s: %s vs %s", e, a.sort(u), b.sort(u))
			}
			t = eq(a.T, b.T)
		}
		if e.Name == "!=" {
			t = not(t)
		}
		return Val{T: t, Ty: tBoolT}, nil
	case "<", "<=", ">", ">=":
		if a.sort(u) == sInt && b.sort(u) == sReal {
			a.T = sx("to_real", a.T)
		} else if a.sort(u) == sReal && b.sort(u) == sInt {
			b.T = sx("to_real", b.T)
		}
		return Val{T: sx(e.Name, a.T, b.T), Ty: tBoolT}, nil
	case "+", "-", "*":
		if a.sort(u) == sStr && e.Name == "+" {
			return Val{T: u.concat(a.T, b.T), Ty: tStrT}, nil
		}
		ty, s := a.Ty, a.S
		if a.sort(u) == sInt && b.sort(u) == sReal {
			a.T = sx("to_real", a.T)
			ty, s = b.Ty, b.S
		} else if a.sort(u) == sReal && b.sort(u) == sInt {
			b.T = sx("to_real", b.T)
		}
		if e.Name == "*" && (a.sort(u) == sReal || b.sort(u) == sReal) && !isNumLit(a.T) && !isNumLit(b.T) {
			return Val{T: u.fmul(a.T, b.T), Ty: ty, S: s}, nil
		}
		return Val{T: sx(e.Name, a.T, b.T), Ty: ty, S: s}, nil
	case "/":
		if a.sort(u) == sReal {
			return Val{T: sx("/", a.T, b.T), Ty: a.Ty, S: a.S}, nil
		}
		return Val{T: goDiv(a.T, b.T), Ty: a.Ty, S: a.S}, nil
	case "%":
		return Val{T: goRem(a.T, b.T), Ty: a.Ty, S: a.S}, nil
	case "++":
		return Val{T: u.concat(a.T, b.T), Ty: tStrT}, nil
	}
	return Val{}, fmt.Errorf("unsupported operator %s", e.Name)
}

func (u *Unit) specSel(e *SExpr, ctx *specCtx) (Val, error) {
	// package-qualified name?
	if id := e.Args[0]; id.Op == "ident" {
		_, bound := ctx.env[id.Name]
		if !bound && ctx.local != nil && !strings.HasPrefix(id.Name, "$") {
			// a source-level local variable shadows a package of the same name (e.g. a local called `set` or `connection`)
			if _, ok := ctx.local(id.Name, ctx.cur); ok {
				bound = true
			}
		}
		if !bound && !strings.HasPrefix(id.Name, "$") {
			if p := u.eng.pkgByName(id.Name, ctx.pkgOf()); p != nil {
				if ctx.pkgOf() == nil || ctx.pkgOf().Scope().Lookup(id.Name) == nil {
					obj := p.Scope().Lookup(e.Name)
					if obj == nil {
						return Val{}, fmt.Errorf("%s.%s not found", id.Name, e.Name)
					}
					return u.specObject(obj, ctx)
				}
			}
		}
	}
	x, err := u.specVal(e.Args[0], ctx)
	if err != nil {
		return Val{}, err
	}
	if x.Ty == nil {
		return Val{}, fmt.Errorf("field %s of untyped spec value %s", e.Name, e.Args[0])
	}
	t := x.Ty
	viaPtr := false
	if pt, ok := t.Underlying().(*types.Pointer); ok {
		t = pt.Elem()
		viaPtr = true
	}
	st, ok := t.Underlying().(*types.Struct)
	if !ok || isTimeType(t) {
		return Val{}, fmt.Errorf("%s is not a struct (type %s)", e.Args[0], x.Ty)
	}
	fi := fieldIndex(st, e.Name)
	if fi < 0 {
		// promoted field through embedded structs (one level)
		for i := 0; i < st.NumFields(); i++ {
			if f := st.Field(i); f.Embedded() {
				if est, ok := f.Type().Underlying().(*types.Struct); ok && fieldIndex(est, e.Name) >= 0 {
					inner := &SExpr{Op: "sel", Name: e.Name, Args: []*SExpr{{Op: "sel", Name: f.Name(), Args: e.Args}}}
					return u.specSel(inner, ctx)
				}
			}
		}
		return Val{}, fmt.Errorf("type %s has no field %s", t, e.Name)
	}
	ft := st.Field(fi).Type()
	if viaPtr {
		hn, hs, _ := fieldHeap(u, t, fi)
		return Val{T: sel(u.hget(ctx.cur, hn, hs), x.T), Ty: ft}, nil
	}
	si := u.reg.structs[u.reg.structSort(t)]
	return Val{T: sx(si.sel(fi), x.T), Ty: ft}, nil
}

func (u *Unit) specIndex(e *SExpr, ctx *specCtx) (Val, error) {
	x, err := u.specVal(e.Args[0], ctx)
	if err != nil {
		return Val{}, err
	}
	i, err := u.specVal(e.Args[1], ctx)
	if err != nil {
		return Val{}, err
	}
	if x.Ty == nil {
		// ghost array
		if strings.HasPrefix(x.S, "(Array ") {
			parts := splitSortArgs(x.S)
			if len(parts) == 2 {
				if i.sort(u) != parts[0] && parts[0] == sAny && i.Ty != nil {
					i = Val{T: u.box(ctx.cur, i), S: sAny}
				}
				rt := u.reg.typeOfSort[parts[1]]
				switch parts[1] {
				case sStr:
					rt = tStrT
				case sInt:
					rt = tIntT
				case sBool:
					rt = tBoolT
				case sReal:
					rt = tRealT
				}
				return Val{T: sel(x.T, i.T), S: parts[1], Ty: rt}, nil
			}
		}
		return Val{}, fmt.Errorf("cannot index %s", e.Args[0])
	}
	switch t := x.Ty.Underlying().(type) {
	case *types.Slice:
		es := u.sortOf(t.Elem())
		h := u.hget(ctx.cur, u.elemHeapName(t.Elem()), "(Array Int (Array Int "+es+"))")
		return Val{T: sel(sel(h, sx("s_arr", x.T)), u.sidx(x.T, i.T)), Ty: t.Elem()}, nil
	case *types.Map:
		return Val{T: u.mapGet(ctx.cur, t, x.T, i.T), Ty: t.Elem()}, nil
	case *types.Basic:
		return Val{T: sx("sat", x.T, i.T), Ty: types.Typ[types.Uint8]}, nil
	case *types.Array:
		return Val{T: sel(x.T, i.T), Ty: t.Elem()}, nil
	}
	return Val{}, fmt.Errorf("cannot index %s of type %s", e.Args[0], x.Ty)
}

func splitSortArgs(s string) []string {
	// "(Array A B)" -> [A, B] respecting parentheses
	s = strings.TrimSuffix(strings.TrimPrefix(s, "(Array "), ")")
	d := 0
	for i, c := range s {
		switch c {
		case '(':
			d++
		case ')':
			d--
		case ' ':
			if d == 0 {
				return []string{s[:i], s[i+1:]}
			}
		}
	}
	return nil
}

func (u *Unit) specCall(e *SExpr, ctx *specCtx) (Val, error) {
	// spec functions live in one namespace; a package qualifier (sugardb.standalone) is accepted and ignored
	if i := strings.LastIndex(e.Name, "."); i >= 0 {
		if _, ok := u.eng.contracts.Specs[e.Name[i+1:]]; ok {
			e2 := *e
			e2.Name = e.Name[i+1:]
			e = &e2
		}
	}
	arg := func(i int) (Val, error) {
		if i >= len(e.Args) {
			return Val{}, fmt.Errorf("%s: missing argument %d", e.Name, i)
		}
		return u.specVal(e.Args[i], ctx)
	}
	switch e.Name {
	case "old":
		n := *ctx
		n.cur = ctx.old
		return u.specVal(e.Args[0], &n)
	case "len":
		x, err := arg(0)
		if err != nil {
			return Val{}, err
		}
		if x.Ty == nil {
			return Val{}, fmt.Errorf("len of untyped %s", e.Args[0])
		}
		switch t := x.Ty.Underlying().(type) {
		case *types.Slice:
			return Val{T: sx("s_len", x.T), Ty: tIntT}, nil
		case *types.Basic:
			return Val{T: sx("slen", x.T), Ty: tIntT}, nil
		case *types.Map:
			return Val{T: u.mapLen(ctx.cur, t, x.T), Ty: tIntT}, nil
		}
		return Val{}, fmt.Errorf("len of %s", x.Ty)
	case "cap":
		x, err := arg(0)
		if err != nil {
			return Val{}, err
		}
		return Val{T: sx("s_cap", x.T), Ty: tIntT}, nil
	case "has":
		m, err := arg(0)
		if err != nil {
			return Val{}, err
		}
		k, err := arg(1)
		if err != nil {
			return Val{}, err
		}
		if m.Ty == nil {
			return Val{T: sel(m.T, k.T), Ty: tBoolT}, nil
		}
		mt, ok := m.Ty.Underlying().(*types.Map)
		if !ok {
			return Val{}, fmt.Errorf("has: %s is not a map", e.Args[0])
		}
		return Val{T: u.mapHas(ctx.cur, mt, m.T, k.T), Ty: tBoolT}, nil
	case "fresh":
		x, err := arg(0)
		if err != nil {
			return Val{}, err
		}
		r := x.T
		if x.sort(u) == sSlice {
			r = sx("s_arr", x.T)
		}
		return Val{T: sx(">=", r, u.hget(ctx.old, "$alloc", sInt)), Ty: tBoolT}, nil
	case "samearr":
		a, err := arg(0)
		if err != nil {
			return Val{}, err
		}
		b, err := arg(1)
		if err != nil {
			return Val{}, err
		}
		return Val{T: and(eq(sx("s_arr", a.T), sx("s_arr", b.T)), eq(sx("s_off", a.T), sx("s_off", b.T))), Ty: tBoolT}, nil
	case "disjointarr":
		a, err := arg(0)
		if err != nil {
			return Val{}, err
		}
		b, err := arg(1)
		if err != nil {
			return Val{}, err
		}
		return Val{T: or(eq(sx("s_arr", a.T), "0"), not(eq(sx("s_arr", a.T), sx("s_arr", b.T)))), Ty: tBoolT}, nil
	case "allocated":
		x, err := arg(0)
		if err != nil {
			return Val{}, err
		}
		if x.sort(u) == sSlice {
			// a slice is allocated when its backing array is (the nil slice has array 0)
			return Val{T: and(sx("<=", "0", sx("s_arr", x.T)), sx("<", sx("s_arr", x.T), u.hget(ctx.cur, "$alloc", sInt))), Ty: tBoolT}, nil
		}
		return Val{T: and(sx("<", "0", x.T), sx("<", x.T, u.hget(ctx.cur, "$alloc", sInt))), Ty: tBoolT}, nil
	case "holds", "rholds", "unlocked":
		x, err := u.specAddr(e.Args[0], ctx)
		if err != nil {
			return Val{}, err
		}
		kind := 0
		if v, err := u.specVal(e.Args[0], ctx); err == nil && v.Ty != nil && strings.Contains(types.TypeString(v.Ty, nil), "sync.RWMutex") {
			kind = 1
		}
		l := sel(u.hget(ctx.cur, "$lock", lockSort), lockKey(x, kind))
		switch e.Name {
		case "holds":
			return Val{T: eq(l, "(- 1)"), Ty: tBoolT}, nil
		case "rholds":
			return Val{T: sx(">", l, "0"), Ty: tBoolT}, nil
		}
		return Val{T: eq(l, "0"), Ty: tBoolT}, nil
	case "deref":
		// deref(p): the value a pointer to a non-struct variable points to
		p, err := arg(0)
		if err != nil {
			return Val{}, err
		}
		pt, ok := p.Ty.Underlying().(*types.Pointer)
		if !ok {
			return Val{}, fmt.Errorf("deref of non-pointer %s", e.Args[0])
		}
		srt := u.sortOf(pt.Elem())
		h := u.hget(ctx.cur, u.cellHeapName(pt.Elem()), "(Array Int "+srt+")")
		return Val{T: sel(h, p.T), Ty: pt.Elem()}, nil
	case "onlyrheld":
		// exactly the listed RWMutexes are read-held (once) by this goroutine, every other mutex is free
		t := "((as const (Array Int Int)) 0)"
		for _, a := range e.Args {
			x, err := u.specAddr(a, ctx)
			if err != nil {
				return Val{}, err
			}
			t = store(t, lockKey(x, 1), "1")
		}
		return Val{T: eq(u.hget(ctx.cur, "$lock", lockSort), t), Ty: tBoolT}, nil
	case "onlyheld":
		// exactly the listed mutexes are write-held by this goroutine, every other mutex is free
		t := "((as const (Array Int Int)) 0)"
		for _, a := range e.Args {
			x, err := u.specAddr(a, ctx)
			if err != nil {
				return Val{}, err
			}
			kind := 0
			if v, err := u.specVal(a, ctx); err == nil && v.Ty != nil && strings.Contains(types.TypeString(v.Ty, nil), "sync.RWMutex") {
				kind = 1
			}
			t = store(t, lockKey(x, kind), "(- 1)")
		}
		return Val{T: eq(u.hget(ctx.cur, "$lock", lockSort), t), Ty: tBoolT}, nil
	case "nolocks":
		return Val{T: eq(u.hget(ctx.cur, "$lock", lockSort), "((as const (Array Int Int)) 0)"), Ty: tBoolT}, nil
	case "sameLocks":
		return Val{T: eq(u.hget(ctx.cur, "$lock", lockSort), u.hget(ctx.old, "$lock", lockSort)), Ty: tBoolT}, nil
	case "ctxval":
		c, err := arg(0)
		if err != nil {
			return Val{}, err
		}
		k, err := arg(1)
		if err != nil {
			return Val{}, err
		}
		u.reg.declFun("ctx_value", "Any Any", sAny)
		return Val{T: sx("ctx_value", c.T, u.box(ctx.cur, k)), S: sAny}, nil
	case "dbof", "hasdb":
		c, err := arg(0)
		if err != nil {
			return Val{}, err
		}
		u.reg.declFun("ctx_value", "Any Any", sAny)
		v := sx("ctx_value", c.T, u.box(ctx.cur, Val{T: u.reg.strLit("Database"), Ty: tStrT}))
		is, val := u.unbox(v, tIntT)
		if e.Name == "hasdb" {
			return Val{T: and(not(eq(c.T, "A_nil")), is), Ty: tBoolT}, nil
		}
		return Val{T: val, Ty: tIntT}, nil
	case "isint", "isstr", "isfloat", "isint64":
		x, err := arg(0)
		if err != nil {
			return Val{}, err
		}
		t := map[string]types.Type{"isint": tIntT, "isstr": tStrT, "isfloat": tRealT, "isint64": types.Typ[types.Int64]}[e.Name]
		is, _ := u.unbox(x.T, t)
		return Val{T: is, Ty: tBoolT}, nil
	case "asint", "asstr", "asfloat", "asint64":
		x, err := arg(0)
		if err != nil {
			return Val{}, err
		}
		t := map[string]types.Type{"asint": tIntT, "asstr": tStrT, "asfloat": tRealT, "asint64": types.Typ[types.Int64]}[e.Name]
		_, v := u.unbox(x.T, t)
		return Val{T: v, Ty: t}, nil
	case "istype", "astype":
		x, err := arg(0)
		if err != nil {
			return Val{}, err
		}
		if len(e.Args) < 2 || e.Args[1].Op != "str" {
			return Val{}, fmt.Errorf("%s(x, \"T\")", e.Name)
		}
		ty, _, err := u.resolveSpecType(e.Args[1].Name, ctx)
		if err != nil {
			return Val{}, err
		}
		is, v := u.unbox(x.T, ty)
		if e.Name == "istype" {
			return Val{T: is, Ty: tBoolT}, nil
		}
		return Val{T: v, Ty: ty}, nil
	case "implements":
		x, err := arg(0)
		if err != nil {
			return Val{}, err
		}
		if len(e.Args) < 2 || e.Args[1].Op != "str" {
			return Val{}, fmt.Errorf("implements(x, \"pkg.Iface\")")
		}
		ty, _, err := u.resolveSpecType(e.Args[1].Name, ctx)
		if err != nil {
			return Val{}, err
		}
		return Val{T: u.implementsTest(x.T, ty), Ty: tBoolT}, nil
	case "sha256hex":
		// the lower-case hex SHA-256 digest of a string, as computed with sha256.New / Write([]byte(s)) / Sum(nil) / hex.EncodeToString
		x, err := arg(0)
		if err != nil {
			return Val{}, err
		}
		u.reg.declFun("hash_sum", "Str", sSlice)
		u.reg.declFun("hex_string", "Slice", sStr)
		return Val{T: sx("hex_string", sx("hash_sum", u.concat(u.reg.strLit(""), x.T))), Ty: tStrT}, nil
	case "bstr":
		// the string spelled by a byte slice (in the current heap)
		x, err := arg(0)
		if err != nil {
			return Val{}, err
		}
		hn, hs := u.elemHeapName(types.Typ[types.Uint8]), "(Array Int (Array Int Int))"
		h := u.hget(ctx.cur, hn, hs)
		return Val{T: u.bytesStr(sel(h, sx("s_arr", x.T)), sx("s_off", x.T), sx("s_len", x.T)), Ty: tStrT}, nil
	case "ref":
		// the object an interface value points to
		x, err := arg(0)
		if err != nil {
			return Val{}, err
		}
		if x.sort(u) != sAny {
			return Val{T: x.T, Ty: tIntT}, nil
		}
		return Val{T: sx("a_ref", x.T), Ty: tIntT}, nil
	case "zeroval":
		if len(e.Args) != 1 || e.Args[0].Op != "str" {
			return Val{}, fmt.Errorf("zeroval(\"T\")")
		}
		ty, _, err := u.resolveSpecType(e.Args[0].Name, ctx)
		if err != nil {
			return Val{}, err
		}
		return Val{T: u.zero(ty), Ty: ty}, nil
	case "boxed":
		x, err := arg(0)
		if err != nil {
			return Val{}, err
		}
		return Val{T: u.box(ctx.cur, x), S: sAny}, nil
	case "int", "int64", "uint64", "int32", "uint8", "float64", "uint":
		x, err := arg(0)
		if err != nil {
			return Val{}, err
		}
		tt := types.Universe.Lookup(e.Name).Type()
		bt := tt.Underlying().(*types.Basic)
		if bt.Info()&types.IsFloat != 0 {
			if x.sort(u) == sReal {
				return Val{T: x.T, Ty: tt}, nil
			}
			return Val{T: sx("to_real", x.T), Ty: tt}, nil
		}
		if bt.Info()&types.IsUnsigned != 0 {
			_, hi := intRange(bt)
			return Val{T: sx("mod", x.T, new(big.Int).Add(hi, bigOne).String()), Ty: tt}, nil
		}
		return Val{T: x.T, Ty: tt}, nil
	case "at":
		s, err := arg(0)
		if err != nil {
			return Val{}, err
		}
		i, err := arg(1)
		if err != nil {
			return Val{}, err
		}
		return Val{T: sx("sat", s.T, i.T), Ty: tIntT}, nil
	case "itoa":
		x, err := arg(0)
		if err != nil {
			return Val{}, err
		}
		u.declItoa()
		return Val{T: sx("itoa", x.T), Ty: tStrT}, nil
	case "atoi", "atoiok":
		x, err := arg(0)
		if err != nil {
			return Val{}, err
		}
		u.declItoa()
		if e.Name == "atoi" {
			return Val{T: sx("atoi", x.T), Ty: tIntT}, nil
		}
		return Val{T: sx("atoi_ok", x.T), Ty: tBoolT}, nil
	case "lower":
		x, err := arg(0)
		if err != nil {
			return Val{}, err
		}
		u.reg.declFun("str_lower", "Str", sStr)
		return Val{T: sx("str_lower", x.T), Ty: tStrT}, nil
	case "atof", "atofok":
		x, err := arg(0)
		if err != nil {
			return Val{}, err
		}
		u.reg.declFun("atof", "Str", sReal)
		u.reg.declFun("atof_ok", "Str", sBool)
		if e.Name == "atof" {
			return Val{T: sx("atof", x.T), Ty: tRealT}, nil
		}
		return Val{T: sx("atof_ok", x.T), Ty: tBoolT}, nil
	case "upper":
		x, err := arg(0)
		if err != nil {
			return Val{}, err
		}
		u.reg.declFun("str_upper", "Str", sStr)
		return Val{T: sx("str_upper", x.T), Ty: tStrT}, nil
	case "contains":
		a, err := arg(0)
		if err != nil {
			return Val{}, err
		}
		b, err := arg(1)
		if err != nil {
			return Val{}, err
		}
		u.reg.declFun("str_contains", "Str Str", sBool)
		return Val{T: sx("str_contains", a.T, b.T), Ty: tBoolT}, nil
	case "sumover":
		// sumover(k T, SET, TERM): the finite sum of TERM(k) over the keys in SET, where SET is seenset() (keys visited by the
		// enclosing range-over-map loop) or dom(m) (the key set of map m). TERM may use only k, parameters and old(...) state,
		// so that it denotes one fixed function of k. Defined by the finite-sum axioms (empty set: 0; adding a new key k
		// adds TERM(k)) - lemma L2 of DESIGN.md, an assumption about mathematics, not about the code.
		if len(e.Args) != 3 || e.Args[0].Op != "ident" {
			return Val{}, fmt.Errorf("sumover(k, SET, TERM) with SET = seenset() | dom(m)")
		}
		kname := e.Args[0].Name
		ksort := sStr
		var kty types.Type = tStrT
		var set string
		switch {
		case e.Args[1].Op == "call" && e.Args[1].Name == "seenset":
			if ctx.iter == nil || ctx.iter.isStr {
				return Val{}, fmt.Errorf("seenset() outside a range-over-map loop invariant")
			}
			sn, ok := ctx.cur.heap[ctx.iter.seen]
			if !ok {
				sn = u.hget(ctx.cur, ctx.iter.seen, u.heapSort[ctx.iter.seen])
			}
			set, ksort = sn, ctx.iter.kSort
			kty = ctx.iter.m.Ty.Underlying().(*types.Map).Key()
		case e.Args[1].Op == "call" && e.Args[1].Name == "dom":
			m, err := u.specVal(e.Args[1].Args[0], ctx)
			if err != nil {
				return Val{}, err
			}
			mt, ok := m.Ty.Underlying().(*types.Map)
			if !ok {
				return Val{}, fmt.Errorf("dom(m): not a map")
			}
			dn, ds, _, _, _ := u.mapHeaps(mt)
			u.mapHeapsDeclared(ctx.cur, mt)
			set, ksort, kty = sel(u.hget(ctx.cur, dn, ds), m.T), u.sortOf(mt.Key()), mt.Key()
		default:
			return Val{}, fmt.Errorf("sumover: SET must be seenset() or dom(m)")
		}
		id := hash8(e.Args[2].String() + "|" + ksort)
		sumf, termf := "sum_"+id, "term_"+id
		if !u.sumDone[id] {
			u.sumDone[id] = true
			env := map[string]Val{}
			for k2, v2 := range ctx.env {
				env[k2] = v2
			}
			env[kname] = Val{T: "q_k", Ty: kty}
			nc := *ctx
			nc.env = env
			nc.cur = ctx.old // TERM is evaluated in the entry state: one fixed function of k
			tv, err := u.specVal(e.Args[2], &nc)
			if err != nil {
				return Val{}, err
			}
			asort := fmt.Sprintf("(Array %s Bool)", ksort)
			u.reg.declFun(sumf, asort, sInt)
			u.reg.declFun(termf, ksort, sInt)
			u.assumeGlobal(fmt.Sprintf("(forall ((q_k %s)) (! (= (%s q_k) %s) :pattern ((%s q_k))))", ksort, termf, tv.T, termf))
			u.assumeGlobal(fmt.Sprintf("(= (%s ((as const %s) false)) 0)", sumf, asort))
			u.assumeGlobal(fmt.Sprintf("(forall ((s %s) (k %s)) (! (=> (not (select s k)) (= (%s (store s k true)) (+ (%s s) (%s k)))) :pattern ((%s (store s k true)))))", asort, ksort, sumf, sumf, termf, sumf))
			u.note("finite-sum axioms (lemma L2) for sumover(" + e.Args[2].String() + ")")
		}
		return Val{T: sx(sumf, set), Ty: types.Typ[types.Int64]}, nil
	case "seencount":
		if ctx.iter == nil || ctx.iter.isStr {
			return Val{}, fmt.Errorf("seencount() is only available in the invariant of a range-over-map loop")
		}
		c, ok := ctx.cur.heap[ctx.iter.cnt]
		if !ok {
			c = u.hget(ctx.cur, ctx.iter.cnt, sInt)
		}
		return Val{T: c, Ty: tIntT}, nil
	case "unixmilli":
		x, err := arg(0)
		if err != nil {
			return Val{}, err
		}
		u.reg.declConst("unix_epoch_ns", sInt)
		return Val{T: goDiv(sx("-", x.T, "unix_epoch_ns"), "1000000"), Ty: types.Typ[types.Int64]}, nil
	case "timeunix", "timeunixmilli":
		// the time.Time that time.Unix(n, 0) / time.UnixMilli(n) returns
		x, err := arg(0)
		if err != nil {
			return Val{}, err
		}
		u.reg.declConst("unix_epoch_ns", sInt)
		k := "1000000000"
		if e.Name == "timeunixmilli" {
			k = "1000000"
		}
		return Val{T: sx("+", "unix_epoch_ns", sx("*", x.T, k)), Ty: u.eng.timeType()}, nil
	case "unixsec":
		x, err := arg(0)
		if err != nil {
			return Val{}, err
		}
		u.reg.declConst("unix_epoch_ns", sInt)
		return Val{T: goDiv(sx("-", x.T, "unix_epoch_ns"), "1000000000"), Ty: types.Typ[types.Int64]}, nil
	case "atomic":
		// atomic(x.f): the current value of the sync/atomic variable stored in field f
		a, err := u.specAddr(e.Args[0], ctx)
		if err != nil {
			return Val{}, err
		}
		return Val{T: sel(u.hget(ctx.cur, "$atomic", "(Array Int Int)"), a), Ty: tIntT}, nil
	case "calls":
		// calls(Name): how many calls to the function / method / function-valued field Name this activation has made so far
		if len(e.Args) != 1 || e.Args[0].Op != "ident" {
			return Val{}, fmt.Errorf("calls(Name)")
		}
		cn := "%calls_" + sanitize(e.Args[0].Name)
		if t, ok := ctx.cur.heap[cn]; ok {
			return Val{T: t, Ty: tIntT}, nil
		}
		return Val{T: "0", Ty: tIntT}, nil
	case "callok":
		// callok(Name): this activation has called Name and the most recent such call returned a nil error
		if len(e.Args) != 1 || e.Args[0].Op != "ident" {
			return Val{}, fmt.Errorf("callok(Name)")
		}
		cn := "%lasterr_" + sanitize(e.Args[0].Name)
		if t, ok := ctx.cur.heap[cn]; ok {
			return Val{T: eq(t, "A_nil"), Ty: types.Typ[types.Bool]}, nil
		}
		return Val{T: "false", Ty: types.Typ[types.Bool]}, nil
	case "atheader":
		if ctx.header == nil {
			return Val{}, fmt.Errorf("atheader() is only available in iteration clauses")
		}
		n := *ctx
		n.cur = ctx.header
		n.header = nil
		if ctx.henv != nil {
			env := map[string]Val{}
			for k, v := range ctx.env {
				env[k] = v
			}
			for k, v := range ctx.henv {
				env[k] = v
			}
			n.env = env
		}
		return u.specVal(e.Args[0], &n)
	case "seenin":
		// seenin(n, k): k was already visited by the range-over-map loop with ordinal n (an enclosing loop)
		if len(e.Args) != 2 || e.Args[0].Op != "int" || ctx.fr == nil {
			return Val{}, fmt.Errorf("seenin(loopOrdinal, key)")
		}
		var ord int
		fmt.Sscan(e.Args[0].Name, &ord)
		it := ctx.fr.iterByOrd[ord]
		if it == nil || it.isStr {
			return Val{}, fmt.Errorf("seenin: loop %d is not a range-over-map loop entered before this point", ord)
		}
		k, err := arg(1)
		if err != nil {
			return Val{}, err
		}
		sn, ok := ctx.cur.heap[it.seen]
		if !ok {
			sn = u.hget(ctx.cur, it.seen, u.heapSort[it.seen])
		}
		return Val{T: sel(sn, k.T), Ty: tBoolT}, nil
	case "seen", "domain0":
		if ctx.iter == nil || ctx.iter.isStr {
			return Val{}, fmt.Errorf("%s() is only available in the invariant of a range-over-map loop", e.Name)
		}
		k, err := arg(0)
		if err != nil {
			return Val{}, err
		}
		if e.Name == "domain0" {
			return Val{T: sel(ctx.iter.dom0, k.T), Ty: tBoolT}, nil
		}
		sn, ok := ctx.cur.heap[ctx.iter.seen]
		if !ok {
			sn = u.hget(ctx.cur, ctx.iter.seen, u.heapSort[ctx.iter.seen])
		}
		return Val{T: sel(sn, k.T), Ty: tBoolT}, nil
	case "inv":
		// inv(x, name): the declared data-structure invariant `name` of x's type, instantiated at x
		x, err := arg(0)
		if err != nil {
			return Val{}, err
		}
		if len(e.Args) != 2 || e.Args[1].Op != "ident" {
			return Val{}, fmt.Errorf("inv(x, name)")
		}
		t, err := u.typeInvTerm(x, e.Args[1].Name, ctx)
		if err != nil {
			return Val{}, err
		}
		return Val{T: t, Ty: tBoolT}, nil
	case "unchanged":
		// unchanged(e): value of e now equals its value in the old state
		now, err := u.specVal(e.Args[0], ctx)
		if err != nil {
			return Val{}, err
		}
		n := *ctx
		n.cur = ctx.old
		was, err := u.specVal(e.Args[0], &n)
		if err != nil {
			return Val{}, err
		}
		return Val{T: eq(now.T, was.T), Ty: tBoolT}, nil
	}
	// user spec function (macro expansion)
	if sf, ok := u.eng.contracts.Specs[e.Name]; ok && sf.Uninterp {
		var sorts, terms []string
		for i, p := range sf.Params {
			v, err := arg(i)
			if err != nil {
				return Val{}, err
			}
			ty, srt, err := u.resolveSpecType(p.Type, ctx)
			if err != nil {
				return Val{}, err
			}
			if ty != nil && srt == sAny && v.sort(u) != sAny && v.Ty != nil {
				v = Val{T: u.box(ctx.cur, v), S: sAny}
			}
			sorts = append(sorts, srt)
			terms = append(terms, v.T)
		}
		rty, rs, err := u.resolveSpecType(sf.Ret, ctx)
		if err != nil {
			return Val{}, err
		}
		fn := "uf_" + sanitize(sf.Name)
		u.reg.declFun(fn, strings.Join(sorts, " "), rs)
		u.note("uninterpreted specification function: " + sf.Name)
		if len(terms) == 0 {
			return Val{T: "(" + fn + ")", Ty: rty, S: rs}, nil
		}
		r := Val{T: sx(fn, terms...), Ty: rty}
		if rty == nil {
			r.S = rs
		}
		return r, nil
	}
	if sf, ok := u.eng.contracts.Specs[e.Name]; ok {
		if ctx.depth > 20 {
			return Val{}, fmt.Errorf("spec function %s: expansion too deep (recursive?)", e.Name)
		}
		if len(e.Args) != len(sf.Params) {
			return Val{}, fmt.Errorf("spec function %s expects %d arguments", e.Name, len(sf.Params))
		}
		env := map[string]Val{}
		for k, v := range ctx.env {
			if strings.HasPrefix(k, "$") {
				env[k] = v
			}
		}
		for i, p := range sf.Params {
			v, err := arg(i)
			if err != nil {
				return Val{}, err
			}
			// give nil / untyped arguments the declared parameter type
			if ty, srt, err := u.resolveSpecType(p.Type, ctx); err == nil {
				if bt, ok := v.Ty.(*types.Basic); ok && bt.Kind() == types.UntypedNil {
					v = Val{T: u.zeroOfVal(Val{Ty: ty, S: srt}), Ty: ty, S: srt}
				} else if ty != nil && v.Ty != nil && u.sortOf(ty) == sAny && v.sort(u) != sAny {
					v = Val{T: u.box(ctx.cur, v), Ty: ty}
				} else if ty != nil && v.Ty == nil && v.S == u.sortOf(ty) {
					v.Ty = ty
				}
			}
			env[p.Name] = v
		}
		n := *ctx
		n.env = env
		n.depth = ctx.depth + 1
		if pk := u.eng.typesPkg(sf.Pkg); pk != nil {
			n.pkg = pk
		}
		return u.specVal(sf.Body, &n)
	}
	// T(x): conversion to a named type with the same representation (e.g. a named string type)
	if len(e.Args) == 1 {
		if ty, srt, err := u.resolveSpecType(e.Name, ctx); err == nil && ty != nil {
			x, err := u.specVal(e.Args[0], ctx)
			if err != nil {
				return Val{}, err
			}
			if x.sort(u) == srt {
				return Val{T: x.T, Ty: ty}, nil
			}
		}
	}
	return Val{}, fmt.Errorf("unknown spec function %s", e.Name)
}

// specAddr evaluates an expression denoting an addressable field (for mutexes): x.f -> address term.
func (u *Unit) specAddr(e *SExpr, ctx *specCtx) (string, error) {
	if e.Op == "sel" {
		// pointer-typed field (e.g. cache.Mutex *sync.Mutex): the value itself is the address
		if v, err := u.specVal(e, ctx); err == nil && v.Ty != nil {
			if _, isPtr := v.Ty.Underlying().(*types.Pointer); isPtr {
				return v.T, nil
			}
		}
		// value field: compose the address function exactly as the executor does
		var path []string
		cur := e
		for cur.Op == "sel" {
			path = append([]string{cur.Name}, path...)
			base, err := u.specVal(cur.Args[0], ctx)
			if err == nil && base.Ty != nil {
				if pt, ok := base.Ty.Underlying().(*types.Pointer); ok {
					st, ok := pt.Elem().Underlying().(*types.Struct)
					if !ok {
						break
					}
					fi := fieldIndex(st, path[0])
					if fi < 0 {
						return "", fmt.Errorf("no field %s", path[0])
					}
					hn, _, ft := fieldHeap(u, pt.Elem(), fi)
					fn := "addr_" + hn
					for _, p := range path[1:] {
						fst, ok := ft.Underlying().(*types.Struct)
						if !ok {
							return "", fmt.Errorf("bad address path")
						}
						pi := fieldIndex(fst, p)
						if pi < 0 {
							return "", fmt.Errorf("no field %s", p)
						}
						fn += fmt.Sprintf("_%d", pi)
						ft = fst.Field(pi).Type()
					}
					return u.addrTerm(fn, []string{base.T}), nil
				}
			}
			cur = cur.Args[0]
		}
	}
	v, err := u.specVal(e, ctx)
	if err != nil {
		return "", err
	}
	return v.T, nil
}

// tryType resolves a spec expression that syntactically may be a type name (ident or pkg.ident).
func (u *Unit) tryType(e *SExpr, ctx *specCtx) types.Type {
	var s string
	switch {
	case e.Op == "ident":
		if _, bound := ctx.env[e.Name]; bound {
			return nil
		}
		s = e.Name
	case e.Op == "sel" && e.Args[0].Op == "ident":
		if _, bound := ctx.env[e.Args[0].Name]; bound {
			return nil
		}
		s = e.Args[0].Name + "." + e.Name
	default:
		return nil
	}
	ty, _, err := u.resolveSpecType(s, ctx)
	if err != nil {
		return nil
	}
	return ty
}

// resolveSpecType maps a type string of the contract language to a Go type (or a raw SMT sort when ty == nil).
func (u *Unit) resolveSpecType(s string, ctx *specCtx) (types.Type, string, error) {
	s = strings.TrimSpace(s)
	switch s {
	case "Ref", "Int":
		return tIntT, sInt, nil
	case "Str":
		return tStrT, sStr, nil
	case "Bool":
		return tBoolT, sBool, nil
	case "Real":
		return tRealT, sReal, nil
	case "Any", "any":
		return tAnyT, sAny, nil
	case "Time":
		return u.eng.timeType(), sInt, nil
	}
	if strings.HasPrefix(s, "(") { // raw SMT sort
		return nil, s, nil
	}
	ex, err := parser.ParseExpr(s)
	if err != nil {
		return nil, "", fmt.Errorf("type %q: %v", s, err)
	}
	ty, err := u.eng.astType(ex, ctx.pkgOf())
	if err != nil {
		return nil, "", fmt.Errorf("type %q: %v", s, err)
	}
	return ty, u.sortOf(ty), nil
}

func (e *Engine) astType(x ast.Expr, pkg *types.Package) (types.Type, error) {
	switch t := x.(type) {
	case *ast.Ident:
		if obj := types.Universe.Lookup(t.Name); obj != nil {
			if tn, ok := obj.(*types.TypeName); ok {
				return tn.Type(), nil
			}
		}
		if pkg != nil {
			if obj := pkg.Scope().Lookup(t.Name); obj != nil {
				if tn, ok := obj.(*types.TypeName); ok {
					return tn.Type(), nil
				}
			}
		}
		return nil, fmt.Errorf("unknown type %s", t.Name)
	case *ast.SelectorExpr:
		id, ok := t.X.(*ast.Ident)
		if !ok {
			return nil, fmt.Errorf("bad qualified type")
		}
		p := e.pkgByName(id.Name, pkg)
		if p == nil {
			return nil, fmt.Errorf("unknown package %s", id.Name)
		}
		obj := p.Scope().Lookup(t.Sel.Name)
		tn, ok := obj.(*types.TypeName)
		if !ok {
			return nil, fmt.Errorf("%s.%s is not a type", id.Name, t.Sel.Name)
		}
		return tn.Type(), nil
	case *ast.StarExpr:
		el, err := e.astType(t.X, pkg)
		if err != nil {
			return nil, err
		}
		return types.NewPointer(el), nil
	case *ast.ArrayType:
		el, err := e.astType(t.Elt, pkg)
		if err != nil {
			return nil, err
		}
		if t.Len == nil {
			return types.NewSlice(el), nil
		}
		return nil, fmt.Errorf("array types unsupported in specs")
	case *ast.MapType:
		k, err := e.astType(t.Key, pkg)
		if err != nil {
			return nil, err
		}
		v, err := e.astType(t.Value, pkg)
		if err != nil {
			return nil, err
		}
		return types.NewMap(k, v), nil
	case *ast.InterfaceType:
		return tAnyT, nil
	case *ast.ParenExpr:
		return e.astType(t.X, pkg)
	}
	return nil, fmt.Errorf("unsupported type syntax %T", x)
}

// typeInvTerm instantiates invariant `name` ("all" = conjunction) declared for the (pointee) type of x.
func (u *Unit) typeInvTerm(x Val, name string, ctx *specCtx) (string, error) {
	t := x.Ty
	if t == nil {
		return "", fmt.Errorf("inv: untyped value")
	}
	if pt, ok := t.Underlying().(*types.Pointer); ok {
		t = pt.Elem()
	}
	n, ok := t.(*types.Named)
	if !ok {
		return "", fmt.Errorf("inv: type %s is not named", t)
	}
	ti := u.eng.contracts.Types[n.Obj().Pkg().Path()+"."+n.Obj().Name()]
	if ti == nil {
		return "", fmt.Errorf("no invariants declared for type %s", n.Obj().Name())
	}
	var parts []string
	for _, cl := range ti.Invs {
		if cl.Label != name && name != "all" {
			continue
		}
		env := map[string]Val{"this": x}
		nc := *ctx
		nc.env = env
		nc.pkg = n.Obj().Pkg()
		nc.local = nil
		tm, err := u.specBool(cl.Expr, &nc)
		if err != nil {
			return "", fmt.Errorf("%s:%d: %v", cl.File, cl.Line, err)
		}
		parts = append(parts, tm)
	}
	if len(parts) == 0 {
		return "", fmt.Errorf("invariant %s not declared for %s", name, n.Obj().Name())
	}
	return and(parts...), nil
}
