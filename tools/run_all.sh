#!/bin/bash
# run_all.sh [quick|thorough] : run every check registered in MANIFEST.json, print one summary line each.
M=${1:-quick}
cd /verif
for p in $(python3 -c "import json;print(' '.join(c['property_id'] for c in json.load(open('/verif/MANIFEST.json'))['checks']))"); do
  out=$(./check $p $M 2>&1); rc=$?
  echo "$p rc=$rc $(echo "$out" | tail -1 | cut -c1-200)"
  echo "$out" | grep -E '^(VIOLATION|KNOWN-FINDING)' | cut -c1-200
done
