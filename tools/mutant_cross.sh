#!/bin/bash
# mutant_cross.sh SEED PROP... : run the given checks against one seeded change in a scratch copy of /repo.
S=/tmp/gowp-mut2
rm -rf $S; mkdir -p $S
cd /repo && git archive HEAD | tar -x -C $S && cp -r /repo/.git $S/.git
d=$1; shift
D=/verif/seeded/$d
P=$D/patch_head.diff; [ -f $P ] || P=$D/patch.diff
cd $S
git apply $P || { echo "$d: PATCH DOES NOT APPLY"; rm -rf $S; exit 3; }
for prop in "$@"; do
  out=$(/verif/bin/gowp check -repo $S $prop quick 2>&1); rc=$?
  echo "$d vs $prop rc=$rc $(echo "$out" | grep -c '^VIOLATION') violations: $(echo "$out" | grep '^  obligation' | sed 's/^  obligation //' | cut -c1-100 | head -3 | tr '\n' ';')"
done
rm -rf $S /tmp/gowp-scratch-out
