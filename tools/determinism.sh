#!/bin/bash
# determinism.sh [PROPS...] : generate (not solve) every obligation twice - the second time with the machine saturated by
# busy processes - and compare property / obligation id / SHA-256 of the query text. The set of obligations a check decides,
# and their text, must be a function of the tree alone. Prints SAME or the differing units; exit 1 on a difference.
cd /verif
export GOFLAGS=-mod=vendor GOPROXY=off GOSUMDB=off GOTOOLCHAIN=local
G=${GOWP:-/verif/bin/gowp}
D=$(mktemp -d /var/tmp/gowp-det.XXXXXX)
trap 'rm -rf "$D"' EXIT
$G gen "$@" > $D/a.txt 2>/dev/null || { echo "gen failed"; exit 2; }
pids=(); for i in $(seq 1 40); do timeout 300 sh -c 'while :; do :; done' & pids+=($!); done
$G gen "$@" > $D/b.txt 2>/dev/null
kill "${pids[@]}" 2>/dev/null; wait 2>/dev/null
n=$(wc -l < $D/a.txt)
if cmp -s $D/a.txt $D/b.txt && [ "$n" -gt 0 ]; then echo "SAME: $n obligation lines, $(grep -c FAILED $D/a.txt) units not analysable"; exit 0; fi
diff $D/a.txt $D/b.txt | grep '^[<>]' | cut -f2 | sed 's|/.*||' | sort | uniq -c
exit 1
