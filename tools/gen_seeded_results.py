#!/usr/bin/env python3
# gen_seeded_results.py FILE... : build seeded/RESULTS.md (and the table in DESIGN.md 9.7) from the output lines of
# tools/mutants_all.sh ("ID rc=N n violations: obligations") and tools/mutant_cross.sh ("ID vs PROP rc=N ...").
import sys,re,json,os
own={}; cross={}
for f in sys.argv[1:]:
    for l in open(f):
        m=re.match(r'(C\d\d_\w) vs (C\d\d) rc=(\d) (\d+) violations: (.*)',l)
        if m:
            cross.setdefault(m.group(1),[]).append((m.group(2),int(m.group(3)),m.group(5)))
            continue
        m=re.match(r'(C\d\d_\w) rc=(\d) (\d+) violations: (.*)',l)
        if m: own[m.group(1)]=(int(m.group(2)),m.group(4)); continue
        m=re.match(r'(C\d\d_\w): PATCH DOES NOT APPLY',l)
        if m: own[m.group(1)]=(-1,'')
rows=[]
caughtmap={}
for d in sorted(os.listdir('/verif/seeded')):
    p='/verif/seeded/'+d
    if not os.path.isdir(p): continue
    meta=json.load(open(p+'/meta.json'))
    files=', '.join(os.path.basename(x) for x in meta.get('files',[]))
    rc,txt=own.get(d,(None,''))
    def first(t):
        t=t.split(';')[0].strip()
        t=re.sub(r'/tmp/gowp-mut\d?/','',t)
        m=re.match(r'(\S+) \((\w+)\)',t)
        return (m.group(1)+' ('+m.group(2)+')') if m else t[:80]
    caught=[]
    if rc==1:
        caught.append(d[:3]+': '+first(txt)); caughtmap.setdefault(d,[]).append(d[:3])
    for (pr,r,t) in cross.get(d,[]):
        if r==1:
            caught.append(pr+': '+first(t)); caughtmap.setdefault(d,[]).append(pr)
    if rc==-1: verdict='patch no longer applies (target code replaced by a fix)'
    elif caught: verdict='caught'
    elif rc is None: verdict='not run'
    else: verdict='NOT caught'
    rows.append((d,files,verdict,'; '.join(caught)))
    # keep each seed's meta.json in step with the table
    if rc is not None:
        meta['caught_by_checks']=sorted(set(caughtmap.get(d,[])))
        meta['checks_run']='tools/mutants_par.sh / mutants_all.sh (check of its own property) and tools/mutant_cross.sh (related properties) at the last re-baseline; see seeded/RESULTS.md'
        json.dump(meta,open(p+'/meta.json','w'),indent=1)
out='| seed | changed file | verdict | failing obligation (check: obligation) |\n|------|--------------|---------|------------------------------------------|\n'
for r in rows: out+='| %s | %s | %s | %s |\n'%r
n=len(rows); c=sum(1 for r in rows if r[2]=='caught'); na=sum(1 for r in rows if r[2].startswith('patch'))
out+='\n%d seeded changes; %d caught by a registered check, %d not caught, %d no longer applicable.\n'%(n,c,n-c-na,na)
json.dump(caughtmap,open('/verif/seeded/caught.json','w'),indent=1,sort_keys=True)
open('/verif/seeded/RESULTS.md','w').write('# Seeded changes against the registered checks\n\nProduced by tools/gen_seeded_results.py from the output of tools/mutants_all.sh / tools/mutant_cross.sh.\n\n'+out)
s=open('/verif/DESIGN.md').read()
a=s.find('<!-- SEEDED_TABLE_BEGIN -->'); b=s.find('<!-- SEEDED_TABLE_END -->')
if a>=0 and b>=0:
    s=s[:a]+'<!-- SEEDED_TABLE_BEGIN -->\n'+out+s[b:]
else:
    s=s.replace('SEEDED_TABLE','<!-- SEEDED_TABLE_BEGIN -->\n'+out+'<!-- SEEDED_TABLE_END -->')
open('/verif/DESIGN.md','w').write(s)
print(out[-200:])
