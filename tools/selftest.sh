#!/bin/bash
# selftest.sh PROP : must-fail self-test of a check (thorough tier). Every seeded change recorded in seeded/caught.json as
# caught by PROP's check is applied to a scratch copy of /repo's working tree (outside /repo and /verif, removed afterwards)
# and PROP's check is run on the copy: it must report a violation. Prints "SELFTEST prop=P seeds=N caught=M missed=<ids>".
# SELFTEST_MAX (default 2, 0 = all) bounds the number of seeds per run.
# A seed whose patch no longer applies to the working tree (the tree was changed) is skipped, not counted.
P=$1
SEEDS=$(python3 -c "
import json
d=json.load(open('/verif/seeded/caught.json'))
l=sorted(k for k,v in d.items() if '$P' in v)
m=int('${SELFTEST_MAX:-2}')
# at most SELFTEST_MAX seeds (default 2: the first and the last recorded for the property) to bound the run time
if m>0 and len(l)>m: l=l[:m-1]+l[-1:]
print(' '.join(l))")
S=$(mktemp -d /tmp/gowp-selftest-XXXXXX)
trap 'rm -rf $S /tmp/gowp-scratch-out' EXIT
(cd /repo && tar --exclude=.git -cf - .) | tar -xf - -C $S
n=0; c=0; missed=""; skipped=""
for d in $SEEDS; do
  D=/verif/seeded/$d
  PF=$D/patch_head.diff; [ -f $PF ] || PF=$D/patch.diff
  cd $S
  if ! patch -p1 --dry-run -s -f < $PF >/dev/null 2>&1; then skipped="$skipped $d"; continue; fi
  patch -p1 -s -f < $PF >/dev/null 2>&1
  n=$((n+1))
  out=$(/verif/bin/gowp check -repo $S $P quick 2>&1)
  if echo "$out" | grep -q '^VIOLATION'; then c=$((c+1)); else missed="$missed $d"; fi
  patch -p1 -R -s -f < $PF >/dev/null 2>&1
done
echo "SELFTEST prop=$P seeds=$n caught=$c missed=[${missed# }] skipped=[${skipped# }]"
