#!/bin/bash
# cold_run.sh : what a fresh restore sees - result store moved aside, evidence files removed, every quick command once in
# sequence. Prints one line per check; every line must say rc=0 and no VIOLATION line may appear. The store is put back
# afterwards (entries written by the cold run are merged into it).
cd /verif
export CARGO_NET_OFFLINE=true GOPROXY=off PIP_NO_INDEX=1 VERIF_SEED=1 VERIF_TIER=quick
[ -d .cache ] && mv .cache .cache.warm
rm -f evidence/*.json
bad=0
for p in $(python3 -c "import json;print(' '.join(c['property_id'] for c in json.load(open('/verif/MANIFEST.json'))['checks']))"); do
  t0=$(date +%s); out=$(./check $p quick 2>&1); rc=$?
  echo "$p rc=$rc $(( $(date +%s)-t0 ))s $(echo "$out" | tail -1 | cut -c1-200)"
  echo "$out" | grep -E '^(VIOLATION|KNOWN-FINDING)' | cut -c1-220
  [ $rc -ne 0 ] && bad=1
  [ -s evidence/$p.json ] || { echo "$p: evidence not rewritten"; bad=1; }
done
if [ -d .cache.warm ]; then cp -rn .cache/. .cache.warm/; rm -rf .cache; mv .cache.warm .cache; fi
exit $bad
