#!/bin/bash
# confirm_seed.sh <propid> <A|B> : confirm a seeded mutant in a scratch worktree of /repo HEAD:
#   demo passes without the mutant, fails with it; the mutant compiles; affected package tests pass.
# Writes /verif/seeded/<prop>_<x>/{patch.diff,demo_test.go,meta.json,confirm.log}
set -u
export GOFLAGS=-mod=mod GOPROXY=off GOSUMDB=off GOTOOLCHAIN=local
P=$1; X=$2
SRC=/tmp/seedout_$P
OUT=/verif/seeded/${P}_$X
WT=$(mktemp -d /tmp/confirm_${P}_${X}_XXXX)
rmdir $WT
git -C /repo worktree add --detach $WT HEAD >/dev/null 2>&1 || { echo "worktree failed"; exit 2; }
trap 'git -C /repo worktree remove --force $WT >/dev/null 2>&1; rm -rf $WT' EXIT
mkdir -p $OUT
cp $SRC/mut$X.diff $OUT/patch.diff
cp $SRC/demo${X}_test.go $OUT/demo_test.go
PKG=$(grep -m1 -o 'place in:* *[A-Za-z0-9_/.]*' $OUT/demo_test.go | sed 's/place in:* *//; s#/$##')
[ -z "$PKG" ] && PKG=sugardb
LOG=$OUT/confirm.log; : > $LOG
cd $WT
cp $OUT/demo_test.go $WT/$PKG/zz_seed_demo_test.go
echo "== baseline demo" >> $LOG
go test -vet=off -count=1 -timeout 300s -run "TestSeedDemo$X\$" ./$PKG/ >> $LOG 2>&1; BASE=$?
git apply $OUT/patch.diff >> $LOG 2>&1; APPLY=$?
echo "== mutant demo" >> $LOG
go test -vet=off -count=1 -timeout 300s -run "TestSeedDemo$X\$" ./$PKG/ >> $LOG 2>&1; MUT=$?
rm -f $WT/$PKG/zz_seed_demo_test.go
CHANGED=$(git diff --name-only | xargs -n1 dirname | sort -u)
echo "== package tests with mutant: $CHANGED" >> $LOG
PKGT=0
for d in $CHANGED; do go test -vet=off -count=1 -timeout 600s ./$d/ >> $LOG 2>&1 || PKGT=1; done
FILES=$(git diff --name-only | tr '\n' ' ')
python3 - <<PY
import json
json.dump({"property":"$P","mutant":"$X","files":"$FILES".split(),"demo_pkg":"$PKG","demo_test":"TestSeedDemo$X",
 "applies_to_head":$APPLY==0,"demo_passes_without":$BASE==0,"demo_fails_with":$MUT!=0,"changed_pkg_tests_pass_with":$PKGT==0,
 "ran":["go test -run TestSeedDemo$X ./$PKG/ (without, with patch)","go test ./<changed pkg>/ with patch"]},open("$OUT/meta.json","w"),indent=1)
PY
cat $OUT/meta.json | tr '\n' ' '; echo
