#!/usr/bin/env python3
# Regenerates /verif/MANIFEST.json from claims/props.json (claimed properties) and tools/not_applicable.json.
import json,subprocess
props=[json.loads(l) for l in open('/verif/properties.jsonl')]
cfg=json.load(open('/verif/claims/props.json'))
base=json.load(open('/root/.vp/BASELINE.json'))
na=json.load(open('/verif/tools/not_applicable.json'))
texts=json.load(open('/verif/tools/level_texts.json'))
hooks_commits=subprocess.run(['git','-C','/repo','log','--format=%h %s','--grep=^verif:'],capture_output=True,text=True).stdout.strip().split('\n')
checks=[]
for p in props:
    pid=p['id']
    if pid not in cfg: continue
    c=cfg[pid]
    note='Trusted base: go/ssa (x/tools v0.29.0) SSA of the working tree; the gowp VC generator; z3 5.1.0 / z3 4.8.12 / cvc5 1.0 (unsat trusted, raced); integers mathematical, float64 as reals, strings as (len, at); sequential reasoning (no interleaving). '
    if c.get('assumptions'): note+='Assumed: '+'; '.join(c['assumptions'])+'. '
    if c.get('not_decided'): note+='Not decided by this check: '+'; '.join(c['not_decided'])+'.'
    checks.append({"property_id":pid,"quick_cmd":"./check %s quick"%pid,"thorough_cmd":"./check %s thorough"%pid,
      "evidence_file":"/verif/evidence/%s.json"%pid,"replay_cmd_template":"./check --replay {path}","engine":"gowp",
      "level_claimed":{"category":"proof","text":texts.get(pid,"contract-based deductive verification of the carrier functions"),"design_ref":"DESIGN.md section 4 (%s), section 9 (as built)"%pid},
      "level_note":note,"technique":"contract-based deductive verification: weakest-precondition VCs over go/ssa of /repo, contracts in //@ comments (build tag verif), discharged by z3/cvc5"})
m={"version":1,
 "setup_cmd":"cd /verif/gowp && GOFLAGS=-mod=vendor GOPROXY=off GOSUMDB=off GOTOOLCHAIN=local go build -o /verif/bin/gowp .",
 "hooks":{"guard":"verif","enable":"go/packages BuildFlags -tags=verif; the guarded files are the comment-only contract files */verif_contracts.go (no executable hooks)","baseline_off_cmd":base['cmd'],"source_commits":[h.split()[0] for h in hooks_commits if h],"add_only":True},
 "engines":[{"name":"gowp","path":"/verif/gowp","serves_properties":[c['property_id'] for c in checks],"kind_free_text":"contract-based deductive verifier for Go written for this task: symbolic execution of go/ssa (x/tools v0.29.0) of /repo's working tree into passive-form verification conditions (Burstall-Bornat heap per Go type, loop cutting by invariants, callee contracts at call sites), contracts as //@ comments in build-tagged verif_contracts.go files, one SMT-LIB query per obligation raced on z3 5.1.0, z3 4.8.12 and cvc5 1.0"}],
 "checks":checks,
 "not_applicable":[{"property_id":p['id'],"reason":na.get(p['id'],"carrier functions not yet under contract (see DESIGN.md section 9)")} for p in props if p['id'] not in cfg],
 "notes":"Every check regenerates its obligations from /repo's working tree. claims/claimed.json lists the obligations discharged on the pinned tree (the regression set); claims/known_findings.json lists recorded defects and the fix: commits. See DESIGN.md."}
json.dump(m,open('/verif/MANIFEST.json','w'),indent=1)
print(len(checks),'checks,',len(m['not_applicable']),'not applicable')
