#!/bin/bash
# confirm_seed2.sh <ID> <agent worktree> : take seed_patch.diff / seed_demo_test.go / seed_notes.txt produced by a sub-agent and
# confirm them in a fresh scratch worktree of /repo HEAD: the demo passes without the change and fails with it, the change
# compiles, the changed packages' tests pass. Writes /verif/seeded/<ID>/{patch.diff,demo_test.go,notes.txt,meta.json,confirm.log}.
set -u
export GOFLAGS=-mod=mod GOPROXY=off GOSUMDB=off GOTOOLCHAIN=local
ID=$1; SRC=$2
OUT=/verif/seeded/$ID
[ -f $SRC/seed_patch.diff ] && [ -f $SRC/seed_demo_test.go ] || { echo "$ID: deliverables missing in $SRC"; exit 2; }
WT=/tmp/confirm_$ID
rm -rf $WT
git -C /repo worktree add --detach $WT HEAD >/dev/null 2>&1 || { echo "worktree failed"; exit 2; }
trap 'git -C /repo worktree remove --force $WT >/dev/null 2>&1; rm -rf $WT; git -C /repo worktree prune' EXIT
mkdir -p $OUT
cp $SRC/seed_patch.diff $OUT/patch.diff
cp $SRC/seed_demo_test.go $OUT/demo_test.go
cp $SRC/seed_notes.txt $OUT/notes.txt 2>/dev/null
PKG=$(grep -m1 -o 'place in:* *[A-Za-z0-9_/.]*' $OUT/demo_test.go | sed 's/place in:* *//; s#^\./##; s#/$##')
[ -z "$PKG" ] && PKG=sugardb
TESTS=$(grep -o '^func Test[A-Za-z0-9_]*' $OUT/demo_test.go | sed 's/func //' | tr '\n' '|' | sed 's/|$//')
LOG=$OUT/confirm.log; : > $LOG
cd $WT
cp $OUT/demo_test.go $WT/$PKG/zz_seed_demo_test.go
echo "== baseline demo ($TESTS in $PKG)" >> $LOG
go test -vet=off -count=1 -timeout 300s -run "^($TESTS)\$" ./$PKG/ >> $LOG 2>&1; BASE=$?
git apply $OUT/patch.diff >> $LOG 2>&1; APPLY=$?
go build ./sugardb/... ./internal/modules/... ./internal/aof/... ./internal/snapshot/... ./internal/eviction/... ./internal/raft/... ./internal/memberlist/... >> $LOG 2>&1 && go vet ./internal/ >> $LOG 2>&1; BUILD=$?
echo "== mutant demo" >> $LOG
go test -vet=off -count=1 -timeout 300s -run "^($TESTS)\$" ./$PKG/ >> $LOG 2>&1; MUT=$?
rm -f $WT/$PKG/zz_seed_demo_test.go
CHANGED=$(git diff --name-only | grep '\.go$' | xargs -n1 dirname | sort -u)
echo "== package tests with mutant: $CHANGED" >> $LOG
PKGT=0
for d in $CHANGED; do go test -vet=off -count=1 -timeout 900s ./$d/ >> $LOG 2>&1 || PKGT=1; done
FILES=$(git diff --name-only | tr '\n' ' ')
python3 - <<PY
import json
json.dump({"property":"$ID".split("_")[0],"mutant":"$ID".split("_")[1],"files":"$FILES".split(),"demo_pkg":"$PKG","demo_test":"$TESTS",
 "applies_to_head":$APPLY==0,"builds":$BUILD==0,"demo_passes_without":$BASE==0,"demo_fails_with":$MUT!=0,"changed_pkg_tests_pass_with":$PKGT==0,
 "ran":["go test -run <demo> ./$PKG/ (without, with patch)","go build ./...","go test ./<changed pkg>/ with patch"]},open("$OUT/meta.json","w"),indent=1)
PY
cat $OUT/meta.json | tr '\n' ' '; echo
