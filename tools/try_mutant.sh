#!/bin/bash
# try_mutant.sh <seed-dir> [props...] : apply seeded/<dir>/patch(_head).diff to /repo, run the quick checks, undo.
D=/verif/seeded/$1; shift
P=$D/patch_head.diff; [ -f $P ] || P=$D/patch.diff
cd /repo || exit 2
git apply --check $P 2>/dev/null || { echo "PATCH DOES NOT APPLY: $P"; exit 3; }
git apply $P
trap 'cd /repo && git apply -R '$P' 2>/dev/null' EXIT
PROPS="$@"; [ -z "$PROPS" ] && PROPS=$(python3 -c "import json;print(' '.join(c['property_id'] for c in json.load(open('/verif/MANIFEST.json'))['checks']))")
for p in $PROPS; do
  out=$(cd /verif && ./check $p quick 2>&1); rc=$?
  echo "$p rc=$rc $(echo "$out" | grep -c '^VIOLATION') violations: $(echo "$out" | grep '^  obligation' | sed 's/^  obligation //' | cut -c1-110 | head -4 | tr '\n' ';')"
done
