#!/bin/bash
# mutants_par.sh N [seeds...] : like mutants_all.sh but in N parallel streams, each with its own scratch copy of /repo HEAD
# (/tmp/gowp-mut<k>, removed at the end). Output lines as in mutants_all.sh, in completion order.
N=$1; shift
SEEDS="$@"; [ -z "$SEEDS" ] && SEEDS=$(ls /verif/seeded | grep '^C[0-9]')
i=0
declare -a LIST
for d in $SEEDS; do LIST[$((i % N))]="${LIST[$((i % N))]} $d"; i=$((i+1)); done
for k in $(seq 0 $((N-1))); do
  (
    S=/tmp/gowp-mut$k
    rm -rf $S; mkdir -p $S
    cd /repo && git archive HEAD | tar -x -C $S
    cp -r /repo/.git $S/.git 2>/dev/null
    for d in ${LIST[$k]}; do
      D=/verif/seeded/$d
      P=$D/patch_head.diff; [ -f $P ] || P=$D/patch.diff
      prop=${d%%_*}
      cd $S
      if ! git apply --check $P 2>/dev/null; then echo "$d: PATCH DOES NOT APPLY"; continue; fi
      git apply $P
      out=$(/verif/bin/gowp check -repo $S $prop quick 2>&1); rc=$?
      echo "$d rc=$rc $(echo "$out" | grep -c '^VIOLATION') violations: $(echo "$out" | grep '^  obligation' | sed 's/^  obligation //' | sed "s#$S#/tmp/gowp-mut#g" | cut -c1-100 | head -3 | tr '\n' ';')"
      git apply -R $P
    done
    rm -rf $S
  ) &
done
wait
rm -rf /tmp/gowp-scratch-out
