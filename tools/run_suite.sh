#!/bin/bash
# run_suite.sh [dir]: run the repository's test suite (guard off) in dir (default /repo) and compare with BASELINE.json stable_pass.
export GOFLAGS=-mod=mod GOPROXY=off GOSUMDB=off GOTOOLCHAIN=local
D=${1:-/repo}
OUT=${2:-/verif/tmp/suite.json}
cd $D && go test -json -vet=off -count=1 -timeout 25m ./... > $OUT 2>/dev/null
python3 - $OUT <<'PY'
import json,sys
base=json.load(open('/root/.vp/BASELINE.json'))
stable=set(base['stable_pass']); flaky=set(base.get('flaky',[]))
res={}
for l in open(sys.argv[1]):
    try: e=json.loads(l)
    except: continue
    if e.get('Action') in('pass','fail') and e.get('Test'):
        res[e['Package']+'::'+e['Test']]=e['Action']
missing=[t for t in stable if res.get(t)!='pass']
print('stable tests:',len(stable),'passing now:',sum(1 for t in stable if res.get(t)=='pass'))
for t in sorted(missing): print('  NOT PASSING:',t,res.get(t))
PY
