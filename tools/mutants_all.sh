#!/bin/bash
# mutants_all.sh [seeds...] : run each seeded change against the check of its own property, in a scratch copy of /repo
# (so /repo stays untouched); prints one line per seed. Scratch copy: /tmp/gowp-mut (removed at the end).
S=/tmp/gowp-mut
rm -rf $S; mkdir -p $S
cd /repo && git archive HEAD | tar -x -C $S
cp -r /repo/.git $S/.git 2>/dev/null
SEEDS="$@"; [ -z "$SEEDS" ] && SEEDS=$(ls /verif/seeded | grep "^C[0-9]")
for d in $SEEDS; do
  D=/verif/seeded/$d
  P=$D/patch_head.diff; [ -f $P ] || P=$D/patch.diff
  prop=${d%%_*}
  cd $S
  if ! git apply --check $P 2>/dev/null; then echo "$d: PATCH DOES NOT APPLY"; continue; fi
  git apply $P
  out=$(/verif/bin/gowp check -repo $S $prop quick 2>&1); rc=$?
  echo "$d rc=$rc $(echo "$out" | grep -c '^VIOLATION') violations: $(echo "$out" | grep '^  obligation' | sed 's/^  obligation //' | cut -c1-100 | head -3 | tr '\n' ';')"
  git apply -R $P
done
rm -rf $S /tmp/gowp-scratch-out
