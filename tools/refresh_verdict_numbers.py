#!/usr/bin/env python3
"""Refresh the 'claimed / all' and 'fns' columns of the verdict table in DESIGN.md (section 9.3) from
claims/claimed.json and the evidence files the checks wrote."""
import json, re
claims = json.load(open('/verif/claims/claimed.json'))
props = claims['properties']
lines = open('/verif/DESIGN.md').read().split('\n')
out = []
for ln in lines:
    m = re.match(r'^\| (C\d\d) \| (\d+)/(\d+) \| (\d+) \|(.*)$', ln)
    if m:
        p = m.group(1)
        ents = props[p]
        total = len(ents)
        claimed = sum(1 for e in ents.values() if e.get('claimed', e.get('Claimed')))
        ev = json.load(open('/verif/evidence/%s.json' % p))
        fns = len(ev['coverage']['functions_under_contract'])
        ln = '| %s | %d/%d | %d |%s' % (p, claimed, total, fns, m.group(5))
    out.append(ln)
open('/verif/DESIGN.md', 'w').write('\n'.join(out))
