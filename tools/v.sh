#!/bin/bash
# v.sh [-t N] funcs... : verify and print a compact summary (non-ok obligations only, short lines)
T=30; if [ "$1" = "-t" ]; then T=$2; shift 2; fi
${GOWP:-/verif/bin/gowp} verify -t $T "$@" 2>&1 | awk '
/^== /{fn=$2; sub(/.*\//,"",fn); next}
/OUT OF REACH/{print "OUT-OF-REACH " fn ": " substr($0,1,200); next}
/^   ok /{ok[fn]++; next}
/^   (FAIL|\?\?\?|VACUOUS)/{ if ($0 ~ /canary/ && $0 ~ /\?\?\?/) next; line=$0; sub(/^ +/,"",line); print substr(line,1,150); bad[fn]++; next}
/^load:|^panic|error/{print substr($0,1,300)}
END{for(f in ok) printf("%s: %d ok, %d not\n", f, ok[f], bad[f]+0)}'
